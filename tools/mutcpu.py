#!/usr/bin/env python3
"""apply mutation (old/new from stdin separated by ====) to /repo file, build, run `cpusim explore --prop P`, revert"""
import subprocess, sys, os, json
prop, rel = sys.argv[1], sys.argv[2]
old, new = sys.stdin.read().split("\n====\n"); old=old.strip("\n"); new=new.strip("\n")
p=os.path.join("/repo",rel); s=open(p).read()
if old not in s: print("TEXT NOT FOUND"); sys.exit(2)
open(p,"w").write(s.replace(old,new,1))
try:
    r=subprocess.run(["cargo","+nightly","build","--release","--offline"],cwd="/verif/sim",stdout=subprocess.PIPE,stderr=subprocess.STDOUT,text=True)
    if r.returncode!=0: print(r.stdout[-1500:]); sys.exit(2)
    r=subprocess.run(["/verif/sim/target/release/cpusim","explore","--prop",prop,"--count",sys.argv[3] if len(sys.argv)>3 else "3000","--out","/verif/work/mut.json","--replay-dir","/verif/work/rp"],stdout=subprocess.PIPE,stderr=subprocess.STDOUT,text=True)
    print("exit",r.returncode, r.stdout[-500:])
    if os.path.exists("/verif/work/mut.json"):
        d=json.load(open("/verif/work/mut.json"))
        print("runs",d["runs_done"])
        for v in d["violations"][:2]: print("  ",v["violation"]["oracle"],v["violation"]["detail"][:300])
finally:
    subprocess.run(["git","-C","/repo","checkout","--",rel])
