#!/bin/bash
# Which lines of /repo/src do the simulators execute?  (maintenance aid, not a check)
# Builds an unoptimised, non-inlined, coverage-instrumented copy of /verif/sim outside /verif,
# explores a few thousand seeds per property and lists the functions / lines of the crate never run.
# usage: tools/coverage.sh [workdir]      (default /var/tmp/cov; removed and recreated)
set -e
W=${1:-/var/tmp/cov}
T=$(dirname $(rustc +nightly --print target-libdir))/bin
rm -rf "$W"; mkdir -p "$W/raw" "$W/out" "$W/rp"
cd /verif/sim
export LLVM_PROFILE_FILE="$W/raw/build-%p-%m.profraw"
RUSTFLAGS="-C instrument-coverage -Zinline-mir=no" cargo +nightly build --offline --target-dir "$W/target" 2>&1 | tail -1
export LLVM_PROFILE_FILE="$W/raw/%p-%m.profraw"
for p in C01 C02 C10 C11 C20; do "$W/target/debug/physim" explore --prop $p --seed 1 --count 2000 --fresh-every 0 --out "$W/out/p-$p.json" --replay-dir "$W/rp" >/dev/null 2>&1 || echo "physim $p: exit $?"; done
for p in C11 C12 C13 C14 C15 C16 C17 C18 C20; do n=4000; [ $p = C17 ] && n=400
  "$W/target/debug/cpusim" explore --prop $p --seed 1 --count $n --fresh-every 0 --out "$W/out/c-$p.json" --replay-dir "$W/rp" >/dev/null 2>&1 || echo "cpusim $p: exit $?"; done
"$T/llvm-profdata" merge -sparse "$W"/raw/*.profraw -o "$W/all.profdata"
"$T/llvm-cov" report -instr-profile="$W/all.profdata" -object "$W/target/debug/physim" -object "$W/target/debug/cpusim" --ignore-filename-regex='(\.cargo|rustc|/verif/)' 2>/dev/null
"$T/llvm-cov" export -instr-profile="$W/all.profdata" -object "$W/target/debug/physim" -object "$W/target/debug/cpusim" --ignore-filename-regex='(\.cargo|rustc|/verif/)' -skip-expansions 2>/dev/null > "$W/export.json"
python3 - "$W/export.json" <<'PY'
import json, sys, linecache
d = json.load(open(sys.argv[1]))
agg = {}
for f in d['data'][0]['functions']:
    k = (f['filenames'][0], f['regions'][0][0])
    agg[k] = max(agg.get(k, 0), f['count'])
print("\nfunctions of the crate never executed (Debug/Display/Default impls left out):")
for (fn, line), c in sorted(agg.items()):
    src = linecache.getline(fn, line).strip()
    if c == 0 and fn.startswith('/repo/src/') and 'fn fmt' not in src and 'fn default' not in src:
        print(f"  {fn.replace('/repo/src/', '')}:{line}: {src[:100]}")
PY
echo "(work directory $W can be removed)"
