#!/usr/bin/env python3
"""Sensitivity helper: apply one textual mutation to /repo, run a check, revert.
usage: mut.py <prop> <file-relative-to-/repo> <<< 'OLD\n====\nNEW'   (reads the mutation from stdin)"""
import subprocess, sys, os
prop, rel = sys.argv[1], sys.argv[2]
old, new = sys.stdin.read().split("\n====\n")
old = old.strip("\n"); new = new.strip("\n")
p = os.path.join("/repo", rel)
s = open(p).read()
if s.count(old) < 1:
    print("MUTATION TEXT NOT FOUND"); sys.exit(2)
open(p, "w").write(s.replace(old, new, 1))
try:
    env = dict(os.environ, VERIF_BUDGET_S=os.environ.get("VERIF_BUDGET_S", "8"))
    r = subprocess.run(["/verif/check", prop], env=env, stdout=subprocess.PIPE, stderr=subprocess.STDOUT, text=True)
    print(r.stdout[-1800:])
    print("exit", r.returncode)
finally:
    subprocess.run(["git", "-C", "/repo", "checkout", "--", rel])
