#!/usr/bin/env python3
"""Determinism proof: run the same seeds twice in different processes and at different worker
counts (ASLR on), diff the per-run event logs.  usage: determinism.py <binary> <prop> <nseeds>"""
import subprocess, sys, os, filecmp
binary, prop, n = sys.argv[1], sys.argv[2], int(sys.argv[3])
B = f"/verif/sim/target/release/{binary}"
os.makedirs("/verif/work/det", exist_ok=True)
def run(tag, workers):
    procs = []
    for k in range(workers):
        log = f"/verif/work/det/{binary}-{prop}-{tag}-{k}.log"
        procs.append(subprocess.Popen([B, "explore", "--prop", prop, "--seed", "7", "--start", str(k), "--stride", str(workers),
            "--count", str(n // workers), "--out", f"/verif/work/det/{tag}-{k}.json", "--replay-dir", "/verif/work/det/rp",
            "--event-log", log, "--max-violations", "1000000"], stdout=subprocess.DEVNULL, stderr=subprocess.DEVNULL))
    for p in procs: p.wait()
    lines = {}
    for k in range(workers):
        for l in open(f"/verif/work/det/{binary}-{prop}-{tag}-{k}.log"):
            seed, rest = l.split(" ", 1)
            # 'distinct=' is cumulative per worker, so it depends on the partition: drop it
            rest = " ".join(x for x in rest.split(" ") if not x.startswith("distinct="))
            lines[int(seed)] = rest
    return lines
a = run("a", 16); b = run("b", 16); c = run("c", 1) if n <= 4000 else run("c", 4)
common = set(a) & set(b) & set(c)
bad = [s for s in sorted(common) if not (a[s] == b[s] == c[s])]
print(f"{binary} {prop}: {len(common)} seeds executed 3x (16 workers twice, {1 if n<=4000 else 4} worker(s) once); divergent: {len(bad)}")
for s in bad[:5]: print(s, a[s], b[s], c[s], sep="\n   ")
sys.exit(1 if bad else 0)
