#!/bin/bash
# Re-run earlier seeded property-breaking changes against the current checks, in a scratch lane
# (a worktree of /repo plus a copy of /verif whose sim/*/Cargo.toml path dependencies point at it).
# usage: regress_seeded.sh <lane dir> <property id>...      (prints "REGR <seeded id> <prop> exit <n>")
# Expected: exit 1 (VIOLATION) for every change that seeded/RESULTS.md lists as caught by that property's check.
L=$1; shift
for p in "$@"; do
  for d in /verif/seeded/$p-*; do
    id=$(basename $d)
    [ -f $d/patch.diff ] || continue
    git -C $L/repo apply $d/patch.diff 2>/dev/null || { echo "REGR $id $p APPLY-FAIL"; continue; }
    (cd $L/verif && ./check $p > $L/regr.out 2>&1; echo "REGR $id $p exit $?")
    git -C $L/repo checkout -q -- .
  done
done
