#!/usr/bin/env python3
import subprocess, sys, os
M = [
 ("C01","rec p2_page swaps p4/p3","src/structures/paging/mapper/recursive_page_table.rs",
  "        recursive_index,\n        recursive_index,\n        page.p4_index(),\n        page.p3_index(),\n    )",
  "        recursive_index,\n        recursive_index,\n        page.p3_index(),\n        page.p4_index(),\n    )"),
 ("C01","map_to_2mib drops HUGE_PAGE","src/structures/paging/mapper/mapped_page_table.rs",
  "        p2[page.p2_index()].set_addr(frame.start_address(), flags | PageTableFlags::HUGE_PAGE);",
  "        p2[page.p2_index()].set_addr(frame.start_address(), flags);"),
 ("C02","UnmapError conversion swapped","src/structures/paging/mapper/mapped_page_table.rs",
  "            PageTableWalkError::MappedToHugePage => UnmapError::ParentEntryHugePage,\n            PageTableWalkError::NotMapped => UnmapError::PageNotMapped,",
  "            PageTableWalkError::MappedToHugePage => UnmapError::PageNotMapped,\n            PageTableWalkError::NotMapped => UnmapError::ParentEntryHugePage,"),
 ("C02","map_to_4kib overwrites existing","src/structures/paging/mapper/mapped_page_table.rs",
  "        if !p1[page.p1_index()].is_unused() {\n            return Err(MapToError::PageAlreadyMapped(frame));\n        }\n        p1[page.p1_index()].set_frame(frame, flags);",
  "        p1[page.p1_index()].set_frame(frame, flags);"),
 ("C09","no zero() of created table (mapped)","src/structures/paging/mapper/mapped_page_table.rs",
  "        if created {\n            page_table.zero();\n        }\n        Ok(page_table)",
  "        let _ = created;\n        Ok(page_table)"),
 ("C09","zero when NOT created (recursive)","src/structures/paging/mapper/recursive_page_table.rs",
  "            if created {\n                page_table.zero();\n            }",
  "            if !created && insert_flags.bits() == 0xdead {\n                page_table.zero();\n            }\n            if created && next_table_page.start_address().as_u64() & 0x1000 == 0 {\n                page_table.zero();\n            }"),
 ("C10","take(end) off by one","src/structures/paging/mapper/mapped_page_table.rs",
  "                    .take(usize::from(end) + 1)", "                    .take(usize::from(end))"),
 ("C10","dealloc before unlink","src/structures/paging/mapper/mapped_page_table.rs",
  "                                entry.set_unused();\n                                frame_deallocator.deallocate_frame(frame);",
  "                                frame_deallocator.deallocate_frame(frame);\n                                entry.set_unused();"),
 ("C10","recursive slot filter dropped","src/structures/paging/mapper/recursive_page_table.rs",
  "                        !(level == PageTableLevel::Four && *i == recursive_index.into())",
  "                        !(level == PageTableLevel::Three && *i == recursive_index.into())"),
 ("C10","frees non-empty tables (mapped)","src/structures/paging/mapper/mapped_page_table.rs",
  "            page_table.iter().all(PageTableEntry::is_unused)\n        }\n\n        unsafe {\n            clean_up(",
  "            page_table.iter().skip(1).all(PageTableEntry::is_unused)\n        }\n\n        unsafe {\n            clean_up("),
 ("C11","unmap token names next page","src/structures/paging/mapper/mapped_page_table.rs",
  "        p1_entry.set_unused();\n        Ok((frame, MapperFlush::new(page)))",
  "        p1_entry.set_unused();\n        Ok((frame, MapperFlush::new(page + 1)))"),
 ("C11","flush flushes page end","src/structures/paging/mapper/mod.rs",
  "        crate::instructions::tlb::flush(self.0.start_address());",
  "        crate::instructions::tlb::flush(self.0.start_address() + (S::SIZE - 1));"),
 ("C20","p1_page arg order","src/structures/paging/mapper/recursive_page_table.rs",
  "        recursive_index,\n        page.p4_index(),\n        page.p3_index(),\n        page.p2_index(),\n    )",
  "        recursive_index,\n        page.p4_index(),\n        page.p2_index(),\n        page.p3_index(),\n    )"),
]
only = sys.argv[1:] 
for prop, name, rel, old, new in M:
    if only and prop not in only: continue
    p = os.path.join("/repo", rel); s = open(p).read()
    if old not in s:
        print(f"[{prop}] {name}: TEXT NOT FOUND"); continue
    open(p, "w").write(s.replace(old, new, 1))
    try:
        env = dict(os.environ, VERIF_BUDGET_S="8")
        r = subprocess.run(["/verif/check", prop], env=env, stdout=subprocess.PIPE, stderr=subprocess.STDOUT, text=True)
        lines = [l for l in r.stdout.splitlines() if l.startswith("VIOLATION") or l.startswith("  ") or "HARNESS" in l or "error" in l]
        print(f"[{prop}] {name}: exit {r.returncode}"); 
        for l in lines[:4]: print("     ", l[:260])
    finally:
        subprocess.run(["git", "-C", "/repo", "checkout", "--", rel])
