#!/usr/bin/env python3
"""Confirm a sub-agent's seeded mutation and run the checks against it.
usage: seeded.py <prop> <worktree> <i> <seeded-id> [check-prop ...]
 1. in the scratch worktree: existing tests pass with the diff, demo fails with it and passes without
 2. apply the diff to /repo, run ./check for the property (and any extra ones), undo
 3. store patch.diff, demo, meta.json under /verif/seeded/<seeded-id>/"""
import subprocess, sys, os, json, shutil, glob
prop, wt, i, sid = sys.argv[1:5]
extra = sys.argv[5:]
def sh(cmd, cwd=None, env=None):
    r = subprocess.run(cmd, shell=True, cwd=cwd, env=env, stdout=subprocess.PIPE, stderr=subprocess.STDOUT, text=True)
    return r.returncode, r.stdout
diff = os.path.join(wt, f"mutation{i}.diff")
demo_test = os.path.join(wt, "tests", f"demo{i}.rs")
demo_cmd = f"cargo test --offline {os.environ.get('SEEDED_DEMO_FLAGS', '')} --test demo{i}" if os.path.exists(demo_test) else None
if demo_cmd is None:
    # demo directory with its own instructions: look for a run.sh
    cands = glob.glob(os.path.join(wt, f"demo{i}", "run.sh"))
    ddir = os.path.join(wt, f"demo{i}")
    flags = os.environ.get('SEEDED_DEMO_FLAGS', '')
    if cands:
        demo_cmd = f"sh {cands[0]}"
    elif os.path.exists(os.path.join(ddir, "Cargo.toml")):
        sub = "test" if os.path.isdir(os.path.join(ddir, "tests")) else "run"
        demo_cmd = f"cargo {sub} --offline {flags} --manifest-path {ddir}/Cargo.toml"
    else:
        demo_cmd = None
assert demo_cmd, "no demonstration found"
meta = {"property": prop, "source": "independent sub-agent, given only the property text and a scratch worktree", "ran": []}
REPO = os.environ.get("SEEDED_REPO", "/repo")       # a lane: scratch worktree + copy of /verif built against it
VERIF = os.environ.get("SEEDED_VERIF", "/verif")
phase = os.environ.get("SEEDED_PHASE", "all")   # confirm | check | all
marker = os.path.join(wt, f".confirmed{i}.json")
if phase == "check" and os.path.exists(marker):
    meta = json.load(open(marker))
    confirmed = True
else:
    confirmed = False
if not confirmed:
  sh("git checkout -- src", wt)
  rc0, out0 = sh(demo_cmd, wt);   meta["ran"].append({"cmd": demo_cmd + " (unchanged tree)", "exit": rc0})
  rc, _ = sh(f"git apply mutation{i}.diff", wt); assert rc == 0, "diff does not apply in worktree"
  rc1, out1 = sh(demo_cmd, wt); meta["ran"].append({"cmd": demo_cmd + " (with change)", "exit": rc1})
  rc2, out2 = sh("cargo test --offline --lib", wt); meta["ran"].append({"cmd": "cargo test --offline --lib (with change)", "exit": rc2, "tail": out2.strip().splitlines()[-1:]})
  rc3, out3 = sh("cargo test --offline --doc", wt); meta["ran"].append({"cmd": "cargo test --offline --doc (with change)", "exit": rc3})
  sh("git checkout -- src", wt)
  ok = rc0 == 0 and rc1 != 0 and rc2 == 0 and rc3 == 0
  print(f"confirm: demo unchanged={rc0} with-change={rc1} lib-tests={rc2} doc-tests={rc3} -> {'CONFIRMED' if ok else 'REJECTED'}")
  if not ok:
      print(out1[-600:]); sys.exit(1)
  json.dump(meta, open(marker, 'w'))
if phase == 'confirm':
    sys.exit(0)
# against /repo
rc, o = sh(f"git -C {REPO} apply {diff}")
if rc != 0:
    print("diff does not apply to /repo HEAD:", o); sys.exit(1)
results = {}
try:
    for p in [prop] + extra:
        env = dict(os.environ)
        rc, o = sh(f"{VERIF}/check {p}", env=env)
        lines = [l for l in o.splitlines() if l.startswith("VIOLATION") or l.startswith("  ") or "HARNESS" in l]
        results[p] = {"exit": rc, "lines": lines[:6]}
        print(f"check {p}: exit {rc}")
        for l in lines[:4]: print("    ", l[:300])
finally:
    sh(f"git -C {REPO} checkout -- .")
meta["checks"] = results
meta["detected_by"] = [p for p, r in results.items() if r["exit"] == 1]
d = os.path.join("/verif/seeded", sid); os.makedirs(d, exist_ok=True)
shutil.copy(diff, os.path.join(d, "patch.diff"))
if os.path.exists(demo_test): shutil.copy(demo_test, os.path.join(d, os.path.basename(demo_test)))
elif os.path.isdir(os.path.join(wt, f"demo{i}")): shutil.copytree(os.path.join(wt, f"demo{i}"), os.path.join(d, f"demo{i}"), dirs_exist_ok=True)
md = os.path.join(wt, "MUTATIONS.md")
if os.path.exists(md): meta["agent_description"] = open(md).read()
json.dump(meta, open(os.path.join(d, "meta.json"), "w"), indent=1)
