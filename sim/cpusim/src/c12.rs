//! C12 — IDT entries sit where the CPU looks and encode the architectural gate format.
//! Environment: one `InterruptDescriptorTable` in harness memory, observed from the CPU's side:
//! after every step all 256 gates are decoded from the raw 16-byte slots at table+16·v
//! (`usim::desc::decode_gate`, written from the SDM) and compared with a reference model of the
//! setter history; `lidt` is trapped and its operand judged; after a load every vector is fetched
//! through the simulated IDTR.  The selector a handler gets is the CS the CPU holds: the native
//! 0x33, or — in monitor-mode runs — whatever the simulated CS register holds.

use core::ops::{Bound, IndexMut, RangeBounds};
use serde_json::{json, Value};
use usim::cpu::{Cpu, Ev};
use usim::desc::{decode_gate, Gate};
use usim::driver::{viol, Replay, Stats, Violation};
use usim::prng::Rng;
use usim::world::{monitor, sut_call, world};
use x86_64::structures::gdt::SegmentSelector;
use x86_64::structures::idt::{Entry, EntryOptions, HandlerFunc, InterruptDescriptorTable as Idt};
use x86_64::{PrivilegeLevel, VirtAddr};

const P: &[&str] = &["C12"];

/// vectors that have a public named field
const FIELD_VECS: [u8; 23] = [0, 1, 2, 3, 4, 5, 6, 7, 8, 10, 11, 12, 13, 14, 16, 17, 18, 19, 20, 21, 28, 29, 30];

/// Run `$body` with `$e` bound to the named field of vector `$v` (its own entry type).
macro_rules! on_field {
    ($idt:expr, $v:expr, |$e:ident| $body:expr) => {
        match $v {
            0 => { let $e = &mut $idt.divide_error; Some($body) }
            1 => { let $e = &mut $idt.debug; Some($body) }
            2 => { let $e = &mut $idt.non_maskable_interrupt; Some($body) }
            3 => { let $e = &mut $idt.breakpoint; Some($body) }
            4 => { let $e = &mut $idt.overflow; Some($body) }
            5 => { let $e = &mut $idt.bound_range_exceeded; Some($body) }
            6 => { let $e = &mut $idt.invalid_opcode; Some($body) }
            7 => { let $e = &mut $idt.device_not_available; Some($body) }
            8 => { let $e = &mut $idt.double_fault; Some($body) }
            10 => { let $e = &mut $idt.invalid_tss; Some($body) }
            11 => { let $e = &mut $idt.segment_not_present; Some($body) }
            12 => { let $e = &mut $idt.stack_segment_fault; Some($body) }
            13 => { let $e = &mut $idt.general_protection_fault; Some($body) }
            14 => { let $e = &mut $idt.page_fault; Some($body) }
            16 => { let $e = &mut $idt.x87_floating_point; Some($body) }
            17 => { let $e = &mut $idt.alignment_check; Some($body) }
            18 => { let $e = &mut $idt.machine_check; Some($body) }
            19 => { let $e = &mut $idt.simd_floating_point; Some($body) }
            20 => { let $e = &mut $idt.virtualization; Some($body) }
            21 => { let $e = &mut $idt.cp_protection_exception; Some($body) }
            28 => { let $e = &mut $idt.hv_injection_exception; Some($body) }
            29 => { let $e = &mut $idt.vmm_communication_exception; Some($body) }
            30 => { let $e = &mut $idt.security_exception; Some($body) }
            _ => None,
        }
    };
}

/// set_handler_addr on an entry of any handler type; returns (entry address, options address)
unsafe fn set_addr<F>(e: &mut Entry<F>, addr: u64, mon: bool) -> (u64, u64) {
    let p = e as *mut Entry<F>;
    let a = VirtAddr::new(addr);
    let o = if mon { monitor(|| (*p).set_handler_addr(a) as *mut EntryOptions as u64) } else { (*p).set_handler_addr(a) as *mut EntryOptions as u64 };
    (p as u64, o)
}

unsafe fn read_addr<F>(e: &mut Entry<F>) -> (u64, u64) {
    (e as *mut Entry<F> as u64, e.handler_addr().as_u64())
}

/// slice access of every kind: 0 `&idt[r]`, 1 `&mut idt[r]`, 2 `idt.slice(r)`, 3 `idt.slice_mut(r)`
unsafe fn acc<R>(idt: *mut Idt, r: R, via: u8) -> (u64, usize)
where
    R: RangeBounds<u8>,
    Idt: IndexMut<R, Output = [Entry<HandlerFunc>]>,
{
    let s: *const [Entry<HandlerFunc>] = match via {
        0 => &(&*idt)[r],
        1 => &mut (&mut *idt)[r],
        2 => (*idt).slice(r),
        _ => (*idt).slice_mut(r),
    };
    (s as *const Entry<HandlerFunc> as u64, s.len())
}

fn bnd(kind: u8, v: u8) -> Bound<u8> {
    match kind {
        0 => Bound::Included(v),
        1 => Bound::Excluded(v),
        _ => Bound::Unbounded,
    }
}
fn bnd_ref(kind: u8, v: &u8) -> Bound<&u8> {
    match kind {
        0 => Bound::Included(v),
        1 => Bound::Excluded(v),
        _ => Bound::Unbounded,
    }
}

const FORM_NAMES: [&str; 13] = [
    "(Bound<&u8>, Bound<&u8>)", "(Bound<u8>, Bound<u8>)", "Range<&u8>", "Range<u8>", "RangeFrom<&u8>", "RangeFrom<u8>", "RangeInclusive<&u8>", "RangeInclusive<u8>", "RangeTo<u8>", "RangeTo<&u8>", "RangeToInclusive<&u8>",
    "RangeToInclusive<u8>", "RangeFull",
];

#[derive(Clone, Copy, Debug)]
struct Rg {
    form: u8,
    sk: u8,
    ek: u8,
    lo: u8,
    hi: u8,
}

impl Rg {
    fn parse(v: &Value) -> Rg {
        let g = |k: &str| v[k].as_u64().unwrap_or(0) as u8;
        Rg { form: g("form").min(12), sk: g("sk").min(2), ek: g("ek").min(2), lo: g("lo"), hi: g("hi") }
    }
    fn json(&self) -> Value {
        json!({"form": self.form, "sk": self.sk, "ek": self.ek, "lo": self.lo, "hi": self.hi})
    }
    /// first vector and one-past-last vector the range denotes (RangeBounds semantics)
    fn norm(&self) -> (usize, usize) {
        let (lo, hi) = (self.lo as usize, self.hi as usize);
        let lower = |k: u8| match k {
            0 => lo,
            1 => lo + 1,
            _ => 0,
        };
        let upper = |k: u8| match k {
            0 => hi + 1,
            1 => hi,
            _ => 256,
        };
        match self.form {
            0 | 1 => (lower(self.sk), upper(self.ek)),
            2 | 3 => (lo, hi),
            4 | 5 => (lo, 256),
            6 | 7 => (lo, hi + 1),
            8 | 9 => (0, hi),
            10 | 11 => (0, hi + 1),
            _ => (0, 256),
        }
    }
    fn show(&self) -> String {
        let b = |k: u8, v: u8| match k {
            0 => format!("Included({v})"),
            1 => format!("Excluded({v})"),
            _ => "Unbounded".to_string(),
        };
        let body = match self.form {
            0 | 1 => format!("({}, {})", b(self.sk, self.lo), b(self.ek, self.hi)),
            2 | 3 => format!("{}..{}", self.lo, self.hi),
            4 | 5 => format!("{}..", self.lo),
            6 | 7 => format!("{}..={}", self.lo, self.hi),
            8 | 9 => format!("..{}", self.hi),
            10 | 11 => format!("..={}", self.hi),
            _ => "..".to_string(),
        };
        format!("{body} as {}", FORM_NAMES[self.form as usize])
    }
    unsafe fn access(&self, idt: *mut Idt, via: u8) -> (u64, usize) {
        let (lo, hi) = (self.lo, self.hi);
        match self.form {
            0 => acc(idt, (bnd_ref(self.sk, &lo), bnd_ref(self.ek, &hi)), via),
            1 => acc(idt, (bnd(self.sk, lo), bnd(self.ek, hi)), via),
            2 => acc(idt, &lo..&hi, via),
            3 => acc(idt, lo..hi, via),
            4 => acc(idt, &lo.., via),
            5 => acc(idt, lo.., via),
            6 => acc(idt, &lo..=&hi, via),
            7 => acc(idt, lo..=hi, via),
            8 => acc(idt, ..hi, via),
            9 => acc(idt, ..&hi, via),
            10 => acc(idt, ..=&hi, via),
            11 => acc(idt, ..=hi, via),
            _ => acc(idt, .., via),
        }
    }
}

const VIA_NAMES: [&str; 4] = ["&idt[range]", "&mut idt[range]", "idt.slice(range)", "idt.slice_mut(range)"];

/// what the documentation says about `idt[v]`
fn index_allowed(v: u8) -> Result<(), &'static str> {
    match v {
        15 | 31 | 22..=27 => Err("reserved"),
        8 | 10..=14 | 17 | 21 | 29 | 30 => Err("an exception with error code"),
        18 => Err("a diverging exception"),
        _ => Ok(()),
    }
}

// ---- model ---------------------------------------------------------------------------------------

#[derive(Clone, Copy, Debug, PartialEq, Eq)]
struct G {
    /// false: untouched or reset
    set: bool,
    offset: u64,
    sel: u16,
    present: bool,
    typ: u8,
    dpl: u8,
    ist: u8,
}

const MISSING: G = G { set: false, offset: 0, sel: 0, present: false, typ: 0xe, dpl: 0, ist: 0 };

struct RawGate([u64; 2]);
impl core::fmt::Display for RawGate {
    fn fmt(&self, f: &mut core::fmt::Formatter) -> core::fmt::Result {
        write!(f, "raw gate {:#018x} {:#018x}", self.0[0], self.0[1])
    }
}

fn cmp_gate(v: usize, m: &G, g: &Gate, view: &str) -> Option<String> {
    let raw = RawGate(g.raw);
    if !m.set {
        if g.present {
            return Some(format!("vector {v} ({view}): never given a handler (or reset) but the gate is present; {raw}"));
        }
        if g.typ & 0xe != 0xe {
            return Some(format!("vector {v} ({view}): untouched/reset entry has type {:#x}, the must-be-one bits 0b111x are not all set; {raw}", g.typ));
        }
        if g.reserved != 0 {
            return Some(format!("vector {v} ({view}): untouched/reset entry has reserved bits set ({:#x}); {raw}", g.reserved));
        }
        return None;
    }
    let mut bad = vec![];
    if g.offset != m.offset {
        bad.push(format!("offset {:#x}, expected {:#x}", g.offset, m.offset));
    }
    if g.selector != m.sel {
        bad.push(format!("selector {:#x}, expected {:#x}", g.selector, m.sel));
    }
    if g.present != m.present {
        bad.push(format!("P={}, expected {}", g.present as u8, m.present as u8));
    }
    if g.typ != m.typ {
        bad.push(format!("type {:#x}, expected {:#x}", g.typ, m.typ));
    }
    if g.dpl != m.dpl {
        bad.push(format!("DPL {}, expected {}", g.dpl, m.dpl));
    }
    if g.ist != m.ist {
        bad.push(format!("IST {}, expected {}", g.ist, m.ist));
    }
    if g.reserved != 0 {
        bad.push(format!("reserved bits {:#x}, expected 0", g.reserved));
    }
    if bad.is_empty() {
        None
    } else {
        Some(format!("vector {v} ({view}): {}; {raw}", bad.join("; ")))
    }
}

struct Sim {
    idt: *mut Idt,
    base: u64,
    model: [G; 256],
    /// selector the CPU holds in CS
    cs: u16,
    mon: bool,
}

impl Sim {
    fn raw(&self) -> [u8; 4096] {
        unsafe { core::ptr::read_volatile(self.base as *const [u8; 4096]) }
    }

    /// the CPU's view: 16 bytes at base + 16·v
    fn check_table(&self, step: usize, after: &str) -> Option<Violation> {
        for v in 0..256usize {
            let a = self.base + 16 * v as u64;
            let (lo, hi) = unsafe { ((a as *const u64).read_volatile(), ((a + 8) as *const u64).read_volatile()) };
            if let Some(d) = cmp_gate(v, &self.model[v], &decode_gate(lo, hi), "bytes 16v..16v+16 of the table") {
                return Some(viol(P, "gate-encoding", step, format!("after {after}: {d}")));
            }
        }
        None
    }

    fn unchanged(&self, before: &[u8; 4096], step: usize, what: &str) -> Option<Violation> {
        let now = self.raw();
        if let Some(i) = (0..4096).find(|&i| now[i] != before[i]) {
            return Some(viol(P, "write-on-refusal", step, format!("{what} but byte {} of the table (vector {}) changed from {:#04x} to {:#04x}", i, i / 16, before[i], now[i])));
        }
        None
    }

    /// judge where a reference the crate returned points
    fn located(&self, step: usize, what: &str, ptr: u64, want_vec: usize) -> Option<Violation> {
        let off = ptr.wrapping_sub(self.base);
        if off != 16 * want_vec as u64 {
            let got = if off < 4096 + 16 { format!("byte offset {off} of the table (vector {} + {})", off / 16, off % 16) } else { "an address outside the table".to_string() };
            return Some(viol(P, "entry-location", step, format!("{what} refers to {got}; the CPU fetches vector {want_vec} from byte offset {}", 16 * want_vec)));
        }
        None
    }
}

// ---- generation -----------------------------------------------------------------------------------

fn gen_addr(rng: &mut Rng, i: u64) -> u64 {
    let canon = |x: u64| ((x << 16) as i64 >> 16) as u64;
    match rng.below(12) {
        0 => 0,
        1 => 0x0000_7fff_ffff_ffff,
        2 => 0xffff_8000_0000_0000,
        3 => 0xffff_ffff_ffff_ffff,
        4 => canon(1u64 << rng.below(48)),
        5 => canon(!(1u64 << rng.below(48))),
        // all four 16-bit pieces distinct and tagged with the step number
        6 => canon(0x1111_2222_3333u64.wrapping_mul(1 + (i & 7)) ^ (i << 4)),
        7 => canon(rng.next() & 0xffff),
        8 => canon(rng.next() & 0xffff_0000),
        9 => canon(rng.next() & 0xffff_0000_0000),
        _ => canon(rng.next()),
    }
}

fn gen_opts(rng: &mut Rng, n: u64) -> Vec<Value> {
    let mut out = vec![];
    for _ in 0..n {
        out.push(match rng.weighted(&[3, 3, 4, 4, 3, 1]) {
            0 => json!({"o": "present", "b": rng.chance(50)}),
            1 => json!({"o": "disable", "b": rng.chance(50)}),
            2 => json!({"o": "dpl", "n": rng.below(4)}),
            3 => json!({"o": "ist", "n": rng.below(7)}),
            4 => json!({"o": "cs", "n": match rng.below(4) { 0 => 0, 1 => 8, 2 => 0xffff, _ => rng.below(65536) }}),
            // documented: "This function panics if the index is not in the range 0..7"
            _ => json!({"o": "ist", "n": *rng.pick(&[7u64, 7, 8, 15, 100, 0x7fff, 0xfffe])}),
        });
    }
    out
}

fn gen_range(rng: &mut Rng) -> Rg {
    let form = if rng.chance(70) { rng.below(8) } else { rng.below(13) } as u8;
    let (sk, ek) = (rng.weighted(&[5, 3, 2]) as u8, rng.weighted(&[4, 4, 2]) as u8);
    let edge = |rng: &mut Rng| -> u8 { *rng.pick(&[0u8, 1, 30, 31, 32, 33, 34, 100, 254, 255]) };
    let (lo, hi) = match rng.below(10) {
        // a range of interrupt vectors
        0..=4 => {
            let lo = rng.range(31, 255) as u8;
            (lo, rng.range(lo as u64, 255) as u8)
        }
        5 | 6 => (edge(rng), edge(rng)),
        7 => {
            let lo = rng.range(32, 255) as u8;
            (lo, lo.saturating_sub(rng.below(3) as u8))
        }
        _ => (rng.below(256) as u8, rng.below(256) as u8),
    };
    Rg { form, sk, ek, lo, hi }
}

fn gen_path(rng: &mut Rng, mutable: bool) -> Value {
    match rng.weighted(&[3, 4, 5]) {
        0 => json!({"path": "field", "v": *rng.pick(&FIELD_VECS)}),
        1 => {
            let v = if rng.chance(45) { rng.below(32) } else { rng.below(256) };
            json!({"path": "index", "v": v})
        }
        _ => {
            let r = gen_range(rng);
            let (lower, upper) = r.norm();
            let len = upper.saturating_sub(lower) as u64;
            let k = if len == 0 {
                0
            } else {
                match rng.below(4) {
                    0 => 0,
                    1 => len - 1,
                    _ => rng.below(len),
                }
            };
            let via = if mutable { *rng.pick(&[1u64, 3]) } else { rng.below(4) };
            json!({"path": "slice", "range": r.json(), "k": k, "via": via})
        }
    }
}

pub fn gen(seed: u64) -> Replay {
    let mut rng = Rng::new(seed ^ 0xc12);
    let monitor_cs = if rng.chance(6) { Some(*rng.pick(&[0x08u64, 0x10, 0x1b, 0x23, 0x38, 0xfff8, 0x33])) } else { None };
    let n = if monitor_cs.is_some() { rng.range(2, 8) } else { rng.range(3, 40) };
    let mut steps = vec![];
    for i in 0..n {
        match rng.weighted(&[12, 5, 1, 2]) {
            0 => {
                let mut s = gen_path(&mut rng, true);
                s["op"] = json!("set");
                s["addr"] = json!(gen_addr(&mut rng, i));
                let k = rng.weighted(&[3, 3, 3, 2, 1, 1]) as u64;
                s["opts"] = Value::Array(gen_opts(&mut rng, k));
                steps.push(s);
            }
            1 => {
                let mut s = gen_path(&mut rng, false);
                s["op"] = json!("peek");
                steps.push(s);
            }
            2 => steps.push(json!({"op": "reset"})),
            _ => steps.push(json!({"op": "load", "safe": rng.chance(50)})),
        }
    }
    if rng.chance(70) {
        steps.push(json!({"op": "load", "safe": rng.chance(50)}));
    }
    let config = json!({"slot": rng.below(257), "monitor_cs": monitor_cs});
    Replay { property: "C12".into(), simulator: "cpusim".into(), seed, config, steps, violation: None, minimised_from_steps: None }
}

// ---- execution ------------------------------------------------------------------------------------

/// three pages, page aligned; the table sits at a seeded 16-byte slot inside
fn arena() -> u64 {
    static mut ARENA: u64 = 0;
    unsafe {
        if ARENA == 0 {
            let l = std::alloc::Layout::from_size_align(3 * 4096, 4096).unwrap();
            ARENA = std::alloc::alloc_zeroed(l) as u64;
        }
        ARENA
    }
}

enum Reach {
    /// the access was refused by a panic (as documented)
    Refused,
    /// nothing to operate on (empty slice, unknown field)
    Nothing,
    /// entry of vector `v` at address `ptr`
    At { v: usize, ptr: u64 },
}

impl Sim {
    /// Reach an entry through index / slice paths (field paths are handled by the caller because
    /// of their entry types).  `mutable`: use IndexMut / slice_mut.
    fn reach(&self, s: &Value, i: usize, mutable: bool, st: &mut Stats) -> Result<Reach, Violation> {
        let idt = self.idt;
        let before = self.raw();
        match s["path"].as_str().unwrap_or("") {
            "index" => {
                let v = s["v"].as_u64().unwrap_or(0) as u8;
                let r = sut_call("idt[v]", || unsafe {
                    if mutable {
                        &mut (&mut *idt)[v] as *mut Entry<HandlerFunc> as u64
                    } else {
                        &(&*idt)[v] as *const Entry<HandlerFunc> as u64
                    }
                });
                st.calls += 1;
                let what = format!("{}idt[{v}]", if mutable { "&mut " } else { "&" });
                st.distinct_key(&[10, mutable as u64, v as u64]);
                match (index_allowed(v), r) {
                    (Ok(()), Ok(ptr)) => {
                        if let Some(x) = self.located(i, &what, ptr, v as usize) {
                            return Err(x);
                        }
                        Ok(Reach::At { v: v as usize, ptr })
                    }
                    (Ok(()), Err(m)) => Err(viol(P, "index-refusal", i, format!("{what} panicked ({m}) although vector {v} is neither reserved nor has a different handler signature"))),
                    (Err(why), Ok(_)) => Err(viol(P, "index-refusal", i, format!("{what} returned an entry although vector {v} is {why}"))),
                    (Err(_), Err(_)) => {
                        st.count("index_refused");
                        if let Some(x) = self.unchanged(&before, i, &format!("{what} was refused")) {
                            return Err(x);
                        }
                        Ok(Reach::Refused)
                    }
                }
            }
            "slice" => {
                let rg = Rg::parse(&s["range"]);
                let via = match (s["via"].as_u64().unwrap_or(0) as u8 & 3, mutable) {
                    (x, true) => x | 1,
                    (x, false) => x,
                };
                let k = s["k"].as_u64().unwrap_or(0) as usize;
                let (lower, upper) = rg.norm();
                let r = sut_call("idt[range]", || unsafe { rg.access(idt, via) });
                st.calls += 1;
                let what = format!("{} with range {}", VIA_NAMES[via as usize], rg.show());
                let class = if lower < 32 {
                    0
                } else if lower > upper {
                    1
                } else if lower == upper {
                    2
                } else {
                    3
                };
                st.distinct_key(&[11, via as u64, rg.form as u64, rg.sk as u64, rg.ek as u64, class, (lower == 32) as u64, (upper == 256) as u64]);
                if lower < 32 {
                    return match r {
                        Ok((ptr, len)) => {
                            let off = ptr.wrapping_sub(self.base);
                            Err(viol(P, "range-refusal", i, format!("{what} starts at vector {lower} (below 32) but returned a slice of {len} entries{}", if off <= 4096 { format!(" at byte offset {off} of the table") } else { String::new() })))
                        }
                        Err(_) => {
                            st.count("range_refused");
                            if let Some(x) = self.unchanged(&before, i, &format!("{what} was refused")) {
                                return Err(x);
                            }
                            Ok(Reach::Refused)
                        }
                    };
                }
                if lower > upper {
                    // a decreasing range: Rust slices panic, an empty slice would also denote no entry
                    return match r {
                        Ok((_, len)) if len > 0 => Err(viol(P, "range-shape", i, format!("{what} denotes no vector but returned a slice of {len} entries"))),
                        _ => {
                            st.count("range_decreasing");
                            if let Some(x) = self.unchanged(&before, i, &format!("{what} denotes no vector")) {
                                return Err(x);
                            }
                            Ok(Reach::Nothing)
                        }
                    };
                }
                match r {
                    Err(m) => Err(viol(P, "range-refusal", i, format!("{what} panicked ({m}) although it starts at vector {lower} (not below 32)"))),
                    Ok((ptr, len)) => {
                        if len != upper - lower {
                            return Err(viol(P, "range-shape", i, format!("{what} returned {len} entries, the range denotes vectors {lower}..{upper} ({} entries)", upper - lower)));
                        }
                        if let Some(x) = self.located(i, &format!("element 0 of {what}"), ptr, lower) {
                            return Err(x);
                        }
                        if len == 0 {
                            st.count("range_empty");
                            return Ok(Reach::Nothing);
                        }
                        let k = k.min(len - 1);
                        // element k of a Rust slice
                        Ok(Reach::At { v: lower + k, ptr: ptr + 16 * k as u64 })
                    }
                }
            }
            _ => Ok(Reach::Nothing),
        }
    }

    fn apply_opts(&mut self, v: usize, optr: u64, opts: &[Value], i: usize, st: &mut Stats) -> Option<Violation> {
        let o = optr as *mut EntryOptions;
        for (j, op) in opts.iter().enumerate() {
            let kind = op["o"].as_str().unwrap_or("");
            let b = op["b"].as_bool().unwrap_or(false);
            let n = op["n"].as_u64().unwrap_or(0);
            let before = self.raw();
            let mut expect_panic = false;
            let label;
            let r = match kind {
                "present" => {
                    label = format!("set_present({b})");
                    self.model[v].present = b;
                    sut_call("set_present", || unsafe { (*o).set_present(b) as *mut EntryOptions as u64 })
                }
                "disable" => {
                    label = format!("disable_interrupts({b})");
                    // interrupt gate (0xE) clears IF on entry, trap gate (0xF) does not
                    self.model[v].typ = if b { 0xe } else { 0xf };
                    sut_call("disable_interrupts", || unsafe { (*o).disable_interrupts(b) as *mut EntryOptions as u64 })
                }
                "dpl" => {
                    let lvl = [PrivilegeLevel::Ring0, PrivilegeLevel::Ring1, PrivilegeLevel::Ring2, PrivilegeLevel::Ring3][n as usize & 3];
                    label = format!("set_privilege_level({lvl:?})");
                    self.model[v].dpl = (n & 3) as u8;
                    sut_call("set_privilege_level", || unsafe { (*o).set_privilege_level(lvl) as *mut EntryOptions as u64 })
                }
                "ist" => {
                    let idx = n as u16;
                    label = format!("set_stack_index({idx})");
                    if idx <= 6 {
                        self.model[v].ist = idx as u8 + 1;
                    } else {
                        expect_panic = true;
                    }
                    sut_call("set_stack_index", || unsafe { (*o).set_stack_index(idx) as *mut EntryOptions as u64 })
                }
                _ => {
                    let sel = n as u16;
                    label = format!("set_code_selector({sel:#x})");
                    self.model[v].sel = sel;
                    sut_call("set_code_selector", || unsafe { (*o).set_code_selector(SegmentSelector(sel)) as *mut EntryOptions as u64 })
                }
            };
            st.calls += 1;
            let kid = match kind {
                "present" => 0,
                "disable" => 1,
                "dpl" => 2,
                "ist" => 3,
                _ => 4,
            };
            st.distinct_key(&[20, kid, b as u64, if kid == 4 { (n == 0) as u64 } else { n.min(8) }, j.min(4) as u64]);
            let after = format!("{label} (option setter {} on vector {v})", j + 1);
            match r {
                Err(m) if expect_panic => {
                    let _ = m;
                    st.count("ist_index_refused");
                    if let Some(x) = self.unchanged(&before, i, &format!("{label} on vector {v} was refused")) {
                        return Some(x);
                    }
                }
                Err(m) => return Some(viol(P, "panic", i, format!("{after} panicked: {m}"))),
                Ok(_) if expect_panic => return Some(viol(P, "ist-index-refusal", i, format!("{after} returned although the documentation promises a panic for indices outside 0..7"))),
                Ok(ret) => {
                    if ret != optr {
                        return Some(viol(P, "setter-chain", i, format!("{after} did not return the options it was called on")));
                    }
                }
            }
            if let Some(x) = self.check_table(i, &after) {
                return Some(x);
            }
        }
        None
    }
}

/// Panics inside calls into the crate are outcomes (caught and judged by the caller): keep them
/// off stderr.  Panics of the harness itself are still printed.
pub fn quiet_sut_panics() {
    static ONCE: std::sync::Once = std::sync::Once::new();
    ONCE.call_once(|| {
        std::panic::set_hook(Box::new(|info| {
            if !world().in_sut {
                eprintln!("{info}");
            }
        }));
    });
}

pub fn run(rp: &Replay, st: &mut Stats) -> Option<Violation> {
    quiet_sut_panics();
    let w = world();
    w.cpu = Cpu::default();
    w.mon_budget = 20_000;
    let monitor_cs = rp.config["monitor_cs"].as_u64().map(|x| x as u16);
    if let Some(cs) = monitor_cs {
        w.cpu.sel[1] = cs;
        st.count("monitor_mode_runs");
    }
    let slot = rp.config["slot"].as_u64().unwrap_or(0).min(256);
    // (in units of the type's own alignment, 16 today: a table placed below its alignment would be
    // the harness's mistake, not the crate's)
    let unit = core::mem::align_of::<Idt>() as u64;
    let slot = slot.min(8192 / unit);
    let base = arena() + unit * slot;
    let idt = base as *mut Idt;
    // a fresh table: `new()` is the crate's constructor; its result is judged below like any other state
    if let Err(m) = sut_call("InterruptDescriptorTable::new", || unsafe { idt.write(Idt::new()) }) {
        return Some(viol(P, "panic", 0, format!("InterruptDescriptorTable::new panicked: {m}")));
    }
    st.calls += 1;
    let mut sim = Sim { idt, base, model: [MISSING; 256], cs: monitor_cs.unwrap_or(0x33), mon: monitor_cs.is_some() };
    if let Some(x) = sim.check_table(0, "InterruptDescriptorTable::new()") {
        return Some(x);
    }
    for (i, s) in rp.steps.iter().enumerate() {
        st.steps += 1;
        let op = s["op"].as_str().unwrap_or("");
        match op {
            "set" | "peek" => {
                let is_set = op == "set";
                let addr = s["addr"].as_u64().unwrap_or(0);
                let addr = ((addr << 16) as i64 >> 16) as u64;
                let opts: Vec<Value> = s["opts"].as_array().cloned().unwrap_or_default();
                let path = s["path"].as_str().unwrap_or("");
                let mon = sim.mon;
                // 1. reach the entry; 2. operate on it through the reference the crate returned
                let (v, res): (usize, Result<(u64, u64), String>) = if path == "field" {
                    let v = s["v"].as_u64().unwrap_or(0) as u8;
                    let r = sut_call("field", || unsafe {
                        let t = &mut *idt;
                        if is_set {
                            on_field!(t, v, |e| set_addr(e, addr, mon))
                        } else {
                            on_field!(t, v, |e| read_addr(e))
                        }
                    });
                    st.calls += 1;
                    st.distinct_key(&[12, is_set as u64, v as u64]);
                    match r {
                        Ok(None) => continue,
                        Ok(Some(x)) => {
                            if let Some(x) = sim.located(i, &format!("the named field of vector {v}"), x.0, v as usize) {
                                return Some(x);
                            }
                            (v as usize, Ok(x))
                        }
                        Err(m) => (v as usize, Err(m)),
                    }
                } else {
                    match sim.reach(s, i, is_set, st) {
                        Err(x) => return Some(x),
                        Ok(Reach::Refused) | Ok(Reach::Nothing) => {
                            if let Some(x) = sim.check_table(i, "a refused access") {
                                return Some(x);
                            }
                            continue;
                        }
                        Ok(Reach::At { v, ptr }) => {
                            let e = ptr as *mut Entry<HandlerFunc>;
                            let r = sut_call(if is_set { "set_handler_addr" } else { "handler_addr" }, || unsafe {
                                if is_set {
                                    set_addr(&mut *e, addr, mon)
                                } else {
                                    read_addr(&mut *e)
                                }
                            });
                            st.calls += 1;
                            (v, r)
                        }
                    }
                };
                if world().mon_overrun {
                    return Some(viol(P, "no-progress", i, format!("set_handler_addr single-stepped more than {} instructions", world().mon_budget)));
                }
                let (eptr, second) = match res {
                    Ok(x) => x,
                    Err(m) => return Some(viol(P, "panic", i, format!("{} on vector {v} panicked: {m}", if is_set { "set_handler_addr" } else { "handler_addr" }))),
                };
                if !is_set {
                    if sim.model[v].set && second != sim.model[v].offset {
                        return Some(viol(P, "handler-addr-readback", i, format!("vector {v}: handler_addr() returned {second:#x}, the handler address set was {:#x}", sim.model[v].offset)));
                    }
                    if let Some(x) = sim.check_table(i, "a read access") {
                        return Some(x);
                    }
                    continue;
                }
                sim.model[v] = G { set: true, offset: addr, sel: sim.cs, present: true, typ: 0xe, dpl: 0, ist: 0 };
                st.count(match path {
                    "field" => "set_via_field",
                    "index" => "set_via_index",
                    _ => "set_via_slice",
                });
                if let Some(x) = sim.check_table(i, &format!("set_handler_addr({addr:#x}) on vector {v} via {path}")) {
                    return Some(x);
                }
                if second.wrapping_sub(eptr) >= 16 {
                    return Some(viol(P, "entry-location", i, format!("set_handler_addr on vector {v} returned options that lie outside the entry")));
                }
                if let Some(x) = sim.apply_opts(v, second, &opts, i, st) {
                    return Some(x);
                }
                // the handler address reads back unchanged after the option setters
                let back = sut_call("handler_addr", || unsafe { (*(eptr as *const Entry<HandlerFunc>)).handler_addr().as_u64() });
                st.calls += 1;
                match back {
                    Err(m) => return Some(viol(P, "panic", i, format!("handler_addr on vector {v} panicked: {m}"))),
                    Ok(a) if a != addr => return Some(viol(P, "handler-addr-readback", i, format!("vector {v}: handler_addr() returned {a:#x} after set_handler_addr({addr:#x}) and {} option setter(s)", opts.len()))),
                    Ok(_) => {}
                }
                let cls = match addr >> 47 {
                    0 => 0,
                    _ => 1,
                };
                st.distinct_key(&[13, cls, (addr & 0xffff == 0) as u64, (addr >> 16 & 0xffff == 0) as u64, (addr >> 32 & 0xffff == 0) as u64, opts.len().min(5) as u64, (v < 32) as u64]);
            }
            "reset" => {
                let r = sut_call("reset", || unsafe { (*idt).reset() });
                st.calls += 1;
                if let Err(m) = r {
                    return Some(viol(P, "panic", i, format!("reset panicked: {m}")));
                }
                sim.model = [MISSING; 256];
                if let Some(x) = sim.check_table(i, "reset()") {
                    return Some(x);
                }
                st.distinct_key(&[14]);
            }
            "load" => {
                let safe = s["safe"].as_bool().unwrap_or(false);
                // (single-stepped: whatever unprivileged instructions surround the lidt - an sidt
                // read-back, say - see the simulated machine, not the host)
                let r = sut_call("load", || unsafe {
                    monitor(|| {
                        if safe {
                            core::mem::transmute::<&Idt, &'static Idt>(&*idt).load()
                        } else {
                            (*idt).load_unsafe()
                        }
                    })
                });
                st.calls += 1;
                if let Err(m) = r {
                    return Some(viol(P, "panic", i, format!("load panicked: {m}")));
                }
                let trace: Vec<Ev> = core::mem::take(&mut world().cpu.trace);
                let name = if safe { "load()" } else { "load_unsafe()" };
                let (b, l) = match trace.as_slice() {
                    [Ev::Lidt { base, limit, .. }] => (*base, *limit),
                    _ => {
                        let kinds: Vec<String> = trace.iter().map(|e| format!("{e:?}").split([' ', '{', '(']).next().unwrap_or("").to_string()).collect();
                        return Some(viol(P, "lidt-operand", i, format!("{name} executed {kinds:?}, expected exactly one lidt")));
                    }
                };
                if l != 4095 || b != base {
                    let delta = b.wrapping_sub(base) as i64;
                    let bs = if b == base {
                        "the table address".to_string()
                    } else if delta.abs() < 1 << 16 {
                        format!("the table address {delta:+}")
                    } else {
                        "an address unrelated to the table".to_string()
                    };
                    return Some(viol(P, "lidt-operand", i, format!("{name} handed the CPU limit {l} and base = {bs}; expected limit 4095 and base = the table address")));
                }
                // the CPU fetches every gate through IDTR
                for v in 0..256usize {
                    let g = match unsafe { world().cpu.fetch_gate(v as u8) } {
                        Ok(g) => g,
                        Err(e) => return Some(viol(P, "gate-fetch", i, format!("after {name}: {e}"))),
                    };
                    if let Some(d) = cmp_gate(v, &sim.model[v], &g, "fetched through IDTR") {
                        return Some(viol(P, "gate-fetch", i, format!("after {name}: {d}")));
                    }
                }
                st.count("loads");
                st.distinct_key(&[15, safe as u64, (slot % 256 == 0) as u64]);
            }
            _ => {}
        }
    }
    // leave no table registered with the simulated CPU
    world().cpu.idtr = Default::default();
    None
}

pub fn simplify(rp: &Replay) -> Vec<Replay> {
    let mut out = vec![];
    for (i, s) in rp.steps.iter().enumerate() {
        if let Some(o) = s["opts"].as_array() {
            for k in 0..o.len() {
                let mut c = rp.clone();
                c.steps[i]["opts"].as_array_mut().unwrap().remove(k);
                out.push(c);
            }
        }
        if s["op"] == "set" {
            let simple = 0x1000 * (i as u64 + 1) + 0x234;
            if s["addr"] != json!(simple) {
                let mut c = rp.clone();
                c.steps[i]["addr"] = json!(simple);
                out.push(c);
            }
            if s["path"] == "slice" {
                // the same vector through plain indexing
                let rg = Rg::parse(&s["range"]);
                let (lower, upper) = rg.norm();
                if lower >= 32 && lower < upper {
                    let v = lower + (s["k"].as_u64().unwrap_or(0) as usize).min(upper - lower - 1);
                    let mut c = rp.clone();
                    c.steps[i] = json!({"op": "set", "path": "index", "v": v, "addr": s["addr"], "opts": s["opts"]});
                    out.push(c);
                }
            }
        }
    }
    if !rp.config["monitor_cs"].is_null() {
        let mut c = rp.clone();
        c.config["monitor_cs"] = Value::Null;
        out.push(c);
    }
    if rp.config["slot"] != json!(0) {
        let mut c = rp.clone();
        c.config["slot"] = json!(0);
        out.push(c);
    }
    out
}
