//! C17 — without_interrupts restores the interrupt flag; enable_and_hlt is atomic.
//! Environment: simulated IF / STI shadow / HLT and a seeded interrupt arrival schedule; the whole
//! scenario runs in monitor mode so that every instruction boundary is an interrupt window and
//! `pushfq` shows the simulated IF.

use serde_json::{json, Value};
use usim::cpu::{Cpu, Ev};
use usim::driver::{viol, Replay, Stats, Violation};
use usim::prng::Rng;
use usim::world::{monitor, sut_call, world};
use x86_64::instructions::interrupts;

#[derive(Clone, Debug)]
enum Act {
    Wi { id: u32, ret: u64, body: Vec<Act> },
    /// closure-safe toggle: flip the flag and restore it
    Pair,
    /// two directly nested without_interrupts calls written out in one function (the closures are
    /// inlined, so the optimiser sees both flag reads in one body)
    Nest2 { id: u32 },
    /// read, flip, read, restore, read — all in one function
    Probe3,
    /// a critical section over memory shared with the interrupt handler: unlocked peek, locked
    /// take inside without_interrupts, all in one function (plain loads and stores)
    Shared(Option<(u8, u64)>),
    /// n directly nested calls through a recursive function (markers only at the bottom)
    Deep { id: u32, n: u32 },
    /// a function that makes no calls and keeps seeded locals in stack memory around the wrapper
    /// (kind 0: are_enabled, 1: without_interrupts whose closure sums the locals, 2: the same
    /// behind an ordering comparison of two seeded values)
    Leaf { kind: u8, seed: u64 },
    Enable,
    Disable,
    AreEnabled,
    /// through call site `site` (0..=63): 64 copies whose code starts at every offset of a cache line
    EnableAndHlt(u8),
    /// an interrupt becomes pending now
    Arrive(u8),
    /// an interrupt arrives `after` boundaries from now
    ArriveLater(u8, u64),
    Work(u32),
    /// the code (a closure body, or the caller) flips another system flag through the crate's own
    /// rflags wrappers and leaves it flipped: ID as CPUID probing does, AC as a `stac` region,
    /// NT, or the (simulated) TF of a debugger that starts or stops stepping
    SysFlag(u8),
    /// inside a closure (flag clear): open an interrupt window - enable, do things (further
    /// sections among them), disable again; leaves the flag as it found it
    Window { body: Vec<Act> },
}

fn parse(v: &Value) -> Act {
    match v["op"].as_str().unwrap_or("") {
        "wi" => Act::Wi { id: v["id"].as_u64().unwrap_or(0) as u32, ret: v["ret"].as_u64().unwrap_or(0), body: v["body"].as_array().map(|a| a.iter().map(parse).collect()).unwrap_or_default() },
        "pair" => Act::Pair,
        "nest2" => Act::Nest2 { id: v["id"].as_u64().unwrap_or(0) as u32 },
        "probe3" => Act::Probe3,
        "deep" => Act::Deep { id: v["id"].as_u64().unwrap_or(0) as u32, n: v["n"].as_u64().unwrap_or(1) as u32 },
        "leaf" => Act::Leaf { kind: v["kind"].as_u64().unwrap_or(0) as u8, seed: v["seed"].as_u64().unwrap_or(0) },
        "shared" => Act::Shared(v["vector"].as_u64().map(|x| (x as u8, v["after"].as_u64().unwrap_or(1)))),
        "enable" => Act::Enable,
        "disable" => Act::Disable,
        "are_enabled" => Act::AreEnabled,
        "enable_and_hlt" => Act::EnableAndHlt(v["site"].as_u64().unwrap_or(0) as u8 & 63),
        "window" => Act::Window { body: v["body"].as_array().map(|a| a.iter().map(parse).collect()).unwrap_or_default() },
        "sysflag" => Act::SysFlag(v["bit"].as_u64().unwrap_or(21) as u8),
        "arrive" => Act::Arrive(v["vector"].as_u64().unwrap_or(32) as u8),
        "arrive_later" => Act::ArriveLater(v["vector"].as_u64().unwrap_or(32) as u8, v["after"].as_u64().unwrap_or(1)),
        _ => Act::Work(v["n"].as_u64().unwrap_or(1) as u32),
    }
}

fn gen_body(rng: &mut Rng, depth: u32, next_id: &mut u32, top: bool) -> Vec<Value> {
    let n = if top { rng.range(1, 6) } else { rng.below(4) };
    let mut out = vec![];
    for _ in 0..n {
        let k = if top { rng.weighted(&[60, 0, 20, 20, 20, 30, 30, 20, 10, 20, 20, 30, 3, 25, 8]) } else { rng.weighted(&[4, 3, 0, 0, 2, 0, 3, 2, 2, 2, 2, 0, 0, 2, 2, 2]) };
        out.push(match k {
            0 if depth < 6 => {
                let id = *next_id;
                *next_id += 1;
                json!({"op": "wi", "id": id, "ret": rng.next(), "body": gen_body(rng, depth + 1, next_id, false)})
            }
            0 => json!({"op": "work", "n": 1}),
            1 => json!({"op": "pair"}),
            2 => json!({"op": "enable"}),
            3 => json!({"op": "disable"}),
            4 => json!({"op": "are_enabled"}),
            5 => json!({"op": "enable_and_hlt", "site": rng.below(64)}),
            6 => json!({"op": "arrive", "vector": rng.range(32, 255)}),
            7 => json!({"op": "arrive_later", "vector": rng.range(32, 255), "after": rng.range(1, 24)}),
            9 => {
                let id = *next_id;
                *next_id += 2;
                json!({"op": "nest2", "id": id})
            }
            10 => json!({"op": "probe3"}),
            13 => json!({"op": "leaf", "kind": rng.below(3), "seed": rng.next()}),
            15 if depth < 6 => json!({"op": "window", "body": gen_body(rng, depth + 1, next_id, false)}),
            15 => json!({"op": "work", "n": 1}),
            14 => json!({"op": "sysflag", "bit": *rng.pick(&[21u64, 21, 18, 18, 14, 8])}),
            12 => {
                let id = *next_id;
                *next_id += 1;
                json!({"op": "deep", "id": id, "n": *rng.pick(&[200u64, 255, 256, 257, 258, 300, 513])})
            }
            11 => {
                // usually with an interrupt that arrives right after the flag has been read
                if rng.chance(70) {
                    json!({"op": "shared", "vector": rng.range(32, 255), "after": rng.range(1, 2)})
                } else {
                    json!({"op": "shared"})
                }
            }
            _ => json!({"op": "work", "n": rng.range(1, 5)}),
        });
    }
    out
}

pub fn gen(seed: u64) -> Replay {
    let mut rng = Rng::new(seed ^ 0xc17);
    let mut next_id = 1;
    let mut steps = gen_body(&mut rng, 0, &mut next_id, true);
    // bias: the lost-wake-up scenario — an interrupt becomes pending while IF = 0, then enable_and_hlt
    if rng.chance(35) {
        steps.push(json!({"op": "disable"}));
        steps.push(json!({"op": "arrive", "vector": rng.range(32, 255)}));
        steps.push(json!({"op": "enable_and_hlt", "site": rng.below(64)}));
    }
    // other system flags the environment may have left set (CPUID probing leaves ID, a `stac`
    // region AC, old task switches NT, IOPL by the loader): they must not confuse the flag logic
    let mut sys = 0u64;
    if rng.chance(40) {
        // (VIF/VIP, bits 19/20, can be loaded by an iretq image and are left alone by popfq; bit 8 is
        // the simulated TF of a debugger stepping through the code)
        for b in [21u32, 18, 14, 12, 13, 19, 20, 8] {
            if rng.chance(40) {
                sys |= 1 << b;
            }
        }
    }
    let config = json!({"init_if": rng.chance(50), "monitor": !rng.chance(15), "rflags_sys": sys});
    Replay { property: "C17".into(), simulator: "cpusim".into(), seed, config, steps, violation: None, minimised_from_steps: None }
}

#[inline(never)]
fn mark(id: u32) {
    // bit 31 records the simulated interrupt flag at the marker
    let c = &mut world().cpu;
    hold(c, true);
    c.tick();
    c.trace.push(Ev::Mark(id | ((c.iflag as u32) << 31)));
    hold(c, false);
}

/// The signal handler edits `trace` and `irq_pending` too (interrupt delivery at instruction
/// boundaries): harness code that edits them brackets the edit with this flag.
#[inline(always)]
fn hold(c: &mut Cpu, on: bool) {
    unsafe { core::ptr::write_volatile(&mut c.hold_irqs, on) };
    core::sync::atomic::compiler_fence(core::sync::atomic::Ordering::SeqCst);
}

#[inline(never)]
fn work(n: u32) -> u32 {
    let mut x = 1u32;
    for i in 0..n {
        x = core::hint::black_box(x.wrapping_mul(31).wrapping_add(i));
        // a yield point: one unit of logical time
        world().cpu.tick();
    }
    x
}

struct Obs {
    are_enabled: Vec<bool>,
    rets_ok: bool,
    /// the seeded locals of a call-free caller read back unchanged
    locals_ok: bool,
    /// (unlocked peek, value taken inside the critical section)
    shared: Vec<(u64, u64)>,
}

/// memory shared between the code under test and the simulated interrupt handler
static mut SHARED_Q: u64 = 0;
static mut SHARED_D: u64 = 0;

fn isr(_vector: u8) {
    // the interrupt handler produces work: visible to the interrupted code as a plain memory change
    unsafe {
        let q = core::ptr::read_volatile(&raw const SHARED_Q);
        core::ptr::write_volatile(&raw mut SHARED_Q, q + 100);
    }
}

/// n nested without_interrupts sections; only the innermost one is marked
fn deep(n: u32, id: u32, reached: &mut u32) {
    interrupts::without_interrupts(|| {
        *reached += 1;
        if n > 1 {
            deep(n - 1, id, reached);
        } else {
            mark(id * 2);
            mark(id * 2 + 1);
        }
    })
}

/// `enable_and_hlt` inlined behind K bytes of padding after a 64-byte boundary: together the 64
/// call sites place the wrapper's instructions at every offset of a cache line (an alignment
/// directive or a multi-byte nop inside the wrapper shows at some offsets only)
#[inline(never)]
fn eh_site<const K: usize>() {
    unsafe { core::arch::asm!(".p2align 6", ".fill {k}, 1, 0x90", k = const K, options(nomem, nostack, preserves_flags)) };
    interrupts::enable_and_hlt();
}

macro_rules! eh_table {
    ($($k:literal)*) => { [$(eh_site::<$k> as fn()),*] };
}
static EH_SITES: [fn(); 64] = eh_table!(0 1 2 3 4 5 6 7 8 9 10 11 12 13 14 15 16 17 18 19 20 21 22 23 24 25 26 27 28 29 30 31 32 33 34 35 36 37 38 39 40 41 42 43 44 45 46 47 48 49 50 51 52 53 54 55 56 57 58 59 60 61 62 63);

const LEAF_N: usize = 12;

#[inline(always)]
fn lcg(x: u64) -> u64 {
    x.wrapping_mul(6364136223846793005).wrapping_add(1442695040888963407)
}

fn leaf_expected(seed: u64) -> u64 {
    let (mut x, mut h) = (seed, 0u64);
    for _ in 0..LEAF_N {
        x = lcg(x);
        h = h.rotate_left(7) ^ x;
    }
    h
}

/// No calls in here: on a target with a red zone the locals may live below the stack pointer.
#[inline(never)]
fn leaf_are_enabled(seed: u64) -> (bool, u64) {
    let mut a = [0u64; LEAF_N];
    let mut x = seed;
    unsafe {
        for k in 0..LEAF_N {
            x = lcg(x);
            core::ptr::write_volatile(a.as_mut_ptr().add(k), x);
        }
        let e = interrupts::are_enabled();
        let mut h = 0u64;
        for k in 0..LEAF_N {
            h = h.rotate_left(7) ^ core::ptr::read_volatile(a.as_ptr().add(k));
        }
        (e, h)
    }
}

#[inline(never)]
fn leaf_without(seed: u64) -> u64 {
    let mut a = [0u64; LEAF_N];
    let mut x = seed;
    unsafe {
        for k in 0..LEAF_N {
            x = lcg(x);
            core::ptr::write_volatile(a.as_mut_ptr().add(k), x);
        }
        interrupts::without_interrupts(|| {
            let mut h = 0u64;
            for k in 0..LEAF_N {
                h = h.rotate_left(7) ^ core::ptr::read_volatile(a.as_ptr().add(k));
            }
            h
        })
    }
}

/// `if pending > low_water { without_interrupts(..) }`: the call directly follows an ordering
/// comparison, and the closure ends in different arithmetic
#[inline(never)]
fn leaf_after_compare(seed: u64) -> u64 {
    let (p, q) = (seed >> 40, (seed >> 16) & 0xff_ffff);
    if p > q {
        leaf_body(seed)
    } else if p < q / 2 {
        leaf_body(seed) ^ 0
    } else {
        leaf_expected(seed)
    }
}

#[inline(always)]
fn leaf_body(seed: u64) -> u64 {
    interrupts::without_interrupts(|| {
        let (mut x, mut h) = (seed, 0u64);
        for _ in 0..LEAF_N {
            x = lcg(x);
            h = h.rotate_left(7) ^ x;
        }
        h
    })
}

fn exec(acts: &[Act], obs: &mut Obs) {
    for a in acts {
        match a {
            Act::Wi { id, ret, body } => {
                let r = interrupts::without_interrupts(|| {
                    mark(*id * 2);
                    exec(body, obs);
                    mark(*id * 2 + 1);
                    *ret
                });
                if r != *ret {
                    obs.rets_ok = false;
                }
            }
            Act::Pair => {
                if interrupts::are_enabled() {
                    interrupts::disable();
                    work(2);
                    interrupts::enable();
                } else {
                    interrupts::enable();
                    work(2);
                    interrupts::disable();
                }
            }
            Act::Deep { id, n } => {
                let mut reached = 0u32;
                deep(*n, *id, &mut reached);
                if reached != *n {
                    obs.rets_ok = false;
                }
            }
            Act::Nest2 { id } => {
                let (a, b) = (*id, *id + 1);
                let r = interrupts::without_interrupts(|| {
                    mark(a * 2);
                    let inner = interrupts::without_interrupts(|| {
                        mark(b * 2);
                        mark(b * 2 + 1);
                        7u64
                    });
                    mark(a * 2 + 1);
                    inner + 1
                });
                if r != 8 {
                    obs.rets_ok = false;
                }
            }
            Act::Leaf { kind, seed } => {
                let h = match kind {
                    0 => {
                        let (e, h) = leaf_are_enabled(*seed);
                        obs.are_enabled.push(e);
                        h
                    }
                    1 => leaf_without(*seed),
                    _ => leaf_after_compare(*seed),
                };
                if h != leaf_expected(*seed) {
                    obs.locals_ok = false;
                }
            }
            Act::Probe3 => {
                let a = interrupts::are_enabled();
                if a {
                    interrupts::disable();
                } else {
                    interrupts::enable();
                }
                let b = interrupts::are_enabled();
                if a {
                    interrupts::enable();
                } else {
                    interrupts::disable();
                }
                let c = interrupts::are_enabled();
                obs.are_enabled.extend_from_slice(&[a, b, c]);
            }
            Act::Shared(arrive) => unsafe {
                if let Some((v, after)) = arrive {
                    let c = &mut world().cpu;
                    hold(c, true);
                    c.irq_pending.push((c.boundary + after, *v));
                    hold(c, false);
                }
                // plain (non-volatile) accesses on purpose: only the asm blocks of cli/sti keep the
                // compiler from moving them out of the critical section
                let peek = SHARED_Q;
                let got = interrupts::without_interrupts(|| {
                    let v = SHARED_Q;
                    SHARED_D = v;
                    v
                });
                SHARED_D = 0;
                obs.shared.push((peek, got));
            },
            Act::Enable => interrupts::enable(),
            Act::Disable => interrupts::disable(),
            Act::AreEnabled => obs.are_enabled.push(interrupts::are_enabled()),
            Act::EnableAndHlt(site) => EH_SITES[*site as usize & 63](),
            Act::Arrive(v) => {
                let c = &mut world().cpu;
                hold(c, true);
                c.irq_pending.push((c.boundary, *v));
                hold(c, false);
            }
            Act::ArriveLater(v, after) => {
                let c = &mut world().cpu;
                hold(c, true);
                c.irq_pending.push((c.boundary + after, *v));
                hold(c, false);
            }
            Act::Work(n) => {
                work(*n);
            }
            Act::Window { body } => {
                interrupts::enable();
                exec(body, obs);
                interrupts::disable();
            }
            Act::SysFlag(b) => {
                let v = x86_64::registers::rflags::read_raw();
                unsafe { x86_64::registers::rflags::write_raw(v ^ (1 << (*b & 31))) };
            }
        }
    }
}

/// which other system flags the action itself flips (through all nesting levels)
fn sys_toggles(acts: &[Act]) -> u64 {
    acts.iter().fold(0, |m, a| match a {
        Act::Wi { body, .. } | Act::Window { body } => m ^ sys_toggles(body),
        Act::SysFlag(b) => m ^ (1 << (*b & 31)),
        _ => m,
    })
}

/// expected (Pushfq / Cli / Sti / Hlt / Mark) sequence and IF evolution
struct Model {
    iflag: bool,
    seq: Vec<Ev>,
    are_enabled: Vec<bool>,
}

impl Model {
    fn run(&mut self, acts: &[Act]) {
        for a in acts {
            match a {
                Act::Wi { id, body, .. } => {
                    self.seq.push(Ev::Pushfq { val: 0 });
                    let saved = self.iflag;
                    if saved {
                        self.seq.push(Ev::Cli);
                        self.iflag = false;
                    }
                    self.seq.push(Ev::Mark(id * 2));
                    self.run(body);
                    self.seq.push(Ev::Mark(id * 2 + 1));
                    if saved {
                        self.seq.push(Ev::Sti);
                        self.iflag = true;
                    }
                }
                Act::Window { body } => {
                    self.seq.push(Ev::Sti);
                    self.iflag = true;
                    self.run(body);
                    self.seq.push(Ev::Cli);
                    self.iflag = false;
                }
                Act::Pair => {
                    self.seq.push(Ev::Pushfq { val: 0 });
                    if self.iflag {
                        self.seq.push(Ev::Cli);
                        self.seq.push(Ev::Sti);
                    } else {
                        self.seq.push(Ev::Sti);
                        self.seq.push(Ev::Cli);
                    }
                }
                Act::Deep { id, .. } => {
                    self.seq.push(Ev::Mark(id * 2));
                    self.seq.push(Ev::Mark(id * 2 + 1));
                }
                Act::Nest2 { id } => {
                    let inner = Act::Wi { id: id + 1, ret: 0, body: vec![] };
                    let outer = Act::Wi { id: *id, ret: 0, body: vec![inner] };
                    self.run(std::slice::from_ref(&outer));
                }
                Act::Probe3 => {
                    let f = self.iflag;
                    self.are_enabled.extend_from_slice(&[f, !f, f]);
                }
                Act::Shared(_) => {}
                Act::Leaf { kind: 0, .. } => self.are_enabled.push(self.iflag),
                Act::Enable => {
                    self.seq.push(Ev::Sti);
                    self.iflag = true;
                }
                Act::Disable => {
                    self.seq.push(Ev::Cli);
                    self.iflag = false;
                }
                Act::AreEnabled => {
                    self.seq.push(Ev::Pushfq { val: 0 });
                    self.are_enabled.push(self.iflag);
                }
                Act::EnableAndHlt(_) => {
                    self.seq.push(Ev::Sti);
                    self.seq.push(Ev::Hlt);
                    self.iflag = true;
                }
                _ => {}
            }
        }
    }
}

fn has_wi(acts: &[Act]) -> bool {
    acts.iter().any(|a| matches!(a, Act::Wi { .. } | Act::Pair | Act::AreEnabled | Act::Nest2 { .. } | Act::Probe3 | Act::Shared(_) | Act::Deep { .. } | Act::Leaf { .. }))
}

pub fn run(rp: &Replay, st: &mut Stats) -> Option<Violation> {
    let acts: Vec<Act> = rp.steps.iter().map(parse).collect();
    let init_if = rp.config["init_if"].as_bool().unwrap_or(true);
    // without monitor mode pushfq shows the native IF (always 1), and any of the wrappers may read
    // the flag (a round-8 seeded change made enable_and_hlt do so): every run single-steps
    let _ = has_wi(&acts);
    let use_monitor = true;
    let w = world();
    w.cpu = Cpu::default();
    w.cpu.iflag = init_if;
    w.cpu.isr_hook = Some(isr);
    unsafe {
        core::ptr::write_volatile(&raw mut SHARED_Q, 7);
        core::ptr::write_volatile(&raw mut SHARED_D, 0);
    }
    w.cpu.rflags_sys = rp.config["rflags_sys"].as_u64().unwrap_or(0);
    w.cpu.trace.reserve(4096);
    w.mon_budget = 400_000;
    st.steps += acts.len() as u64;

    // one top-level action at a time, so that a violation has a step index
    let mut model = Model { iflag: init_if, seq: vec![], are_enabled: vec![] };
    for (i, a) in acts.iter().enumerate() {
        let one = std::slice::from_ref(a);
        let if_before = world().cpu.iflag;
        let sys_before = world().cpu.rflags_sys;
        let pending_before = !world().cpu.irq_pending.is_empty();
        let mut obs = Obs { are_enabled: vec![], rets_ok: true, locals_ok: true, shared: vec![] };
        let q0 = unsafe { core::ptr::read_volatile(&raw const SHARED_Q) };
        let r = sut_call("c17", || {
            if use_monitor {
                monitor(|| exec(one, &mut obs))
            } else {
                exec(one, &mut obs)
            }
        });
        st.calls += 1;
        let w = world();
        if let Err(m) = r {
            return Some(viol(&["C17"], "panic", i, format!("panicked: {m}")));
        }
        if w.mon_overrun {
            return Some(viol(&["C17"], "no-progress", i, format!("more than {} instructions single-stepped in one action", w.mon_budget)));
        }
        let trace: Vec<Ev> = w.cpu.trace.clone();
        st.fold_trace(&trace);
        st.fold(w.cpu.boundary);
        if std::env::var_os("C17_DUMP").is_some() {
            eprintln!("step {i} boundary {} trace {:?}", w.cpu.boundary, trace);
        }
        model.seq.clear();
        model.are_enabled.clear();
        model.iflag = if_before;
        model.run(one);
        // 1. closures run exactly once, in nesting order (the instruction choice is the
        //    implementation's business: only markers are compared)
        let got: Vec<u32> = trace.iter().filter_map(|e| if let Ev::Mark(m) = e { Some(m & 0x7fff_ffff) } else { None }).collect();
        let exp: Vec<u32> = model.seq.iter().filter_map(|e| if let Ev::Mark(m) = e { Some(*m) } else { None }).collect();
        if got != exp {
            return Some(viol(&["C17"], "closure-run-count", i, format!("closure entry/exit markers were {:?}, expected {:?}; trace {:?}", got, exp, trace)));
        }
        // 2. flag afterwards
        if w.cpu.iflag != model.iflag {
            return Some(viol(&["C17"], "flag-after", i, format!("IF was {} before, is {} afterwards, expected {}", if_before as u8, w.cpu.iflag as u8, model.iflag as u8)));
        }
        let sys_want = sys_before ^ sys_toggles(one);
        if w.cpu.rflags_sys != sys_want {
            return Some(viol(&["C17"], "other-flags-changed", i, format!("system flags changed {sys_before:#x} -> {:#x}, expected {sys_want:#x} (only what the action itself flipped)", w.cpu.rflags_sys)));
        }
        if !obs.rets_ok {
            return Some(viol(&["C17"], "closure-result", i, "without_interrupts did not return the closure's result".into()));
        }
        if !obs.locals_ok {
            return Some(viol(&["C17"], "caller-locals-changed", i, format!("a function without calls kept 12 seeded words in its stack frame around the wrapper; they (or the closure's result computed from them) read back changed: {a:?}")));
        }
        if obs.are_enabled != model.are_enabled {
            return Some(viol(&["C17"], "are_enabled", i, format!("are_enabled() returned {:?}, the simulated flag was {:?}", obs.are_enabled, model.are_enabled)));
        }
        // 3. a closure is entered with the flag clear and leaves it clear at its own exit marker;
        //    enable / disable are a single flag change
        for e in &trace {
            if let Ev::Mark(m) = e {
                if m >> 31 != 0 {
                    let id = (m & 0x7fff_ffff) / 2;
                    let what = if m & 1 == 0 { "entered" } else { "left" };
                    return Some(viol(&["C17"], "closure-with-flag-set", i, format!("closure {id} was {what} with the interrupt flag set: {trace:?}")));
                }
            }
        }
        if matches!(a, Act::Enable | Act::Disable) {
            // "set / clear the flag and change nothing else": the flag goes to its target value and
            // never to the opposite one on the way; reading the flags first is the implementation's
            // business (how the flag is written too: sti/cli or a popfq image), anything that is not
            // a flag access is not
            let target = matches!(a, Act::Enable);
            let mut f = if_before;
            let mut reached = if_before == target;
            for e in &trace {
                match e {
                    Ev::Deliver { .. } | Ev::Pushfq { .. } => {}
                    Ev::Sti => f = true,
                    Ev::Cli => f = false,
                    Ev::Popfq { val } => f = val & 0x200 != 0,
                    other => return Some(viol(&["C17"], "enable-disable", i, format!("{} executed {other:?}, which is not an access to the flags: {trace:?}", if target { "enable" } else { "disable" }))),
                }
                reached |= f == target;
                if f != target && reached {
                    return Some(viol(&["C17"], "enable-disable", i, format!("{} moved the flag away from its target on the way: {trace:?}", if target { "enable" } else { "disable" })));
                }
            }
            if !trace.iter().any(|e| matches!(e, Ev::Sti | Ev::Cli | Ev::Popfq { .. })) {
                return Some(viol(&["C17"], "enable-disable", i, format!("{} executed no instruction that writes the flag: {trace:?}", if target { "enable" } else { "disable" })));
            }
        }
        // 3b. the value taken inside the critical section is the one the memory held once
        //     interrupts were off: every handler run before the cli (or before the closure, when
        //     the flag was already clear) is visible to it
        if let Act::Shared(_) = a {
            let stop = trace.iter().position(|e| matches!(e, Ev::Cli)).unwrap_or(trace.len());
            let before = trace[..stop].iter().filter(|e| matches!(e, Ev::Deliver { .. })).count() as u64;
            let want = q0 + 100 * before;
            if let Some((peek, got)) = obs.shared.first() {
                if *got != want {
                    return Some(viol(&["C17"], "critical-section-stale-read", i, format!("{before} interrupt handler run(s) changed the shared word from {q0} to {want} before interrupts were disabled, but the closure read {got} inside the critical section (unlocked peek before: {peek}); trace {trace:?}")));
                }
                if before > 0 && peek != got {
                    st.count("handler_between_peek_and_cli");
                }
            }
        }
        // 4. enable_and_hlt: no window between sti and hlt, no lost wake-up
        if let Act::EnableAndHlt(_) = a {
            let core: Vec<&Ev> = trace.iter().filter(|e| !matches!(e, Ev::Mark(_))).collect();
            let pos_sti = core.iter().position(|e| matches!(e, Ev::Sti));
            let pos_hlt = core.iter().position(|e| matches!(e, Ev::Hlt));
            // with IF=1 before the call STI has no shadow and an interrupt arriving in between is
            // taken there on real hardware too; the guarantee is about the IF=0 case
            if let (Some(s), Some(h), false) = (pos_sti, pos_hlt, if_before) {
                if let Some(d) = core[s..h].iter().find(|e| matches!(e, Ev::Deliver { .. })) {
                    return Some(viol(&["C17"], "window-before-hlt", i, format!("an interrupt ({d:?}) was taken between sti and hlt: {trace:?}")));
                }
            }
            // with IF=0 before the call a pending interrupt cannot have been taken before the sti
            if w.cpu.hung && pending_before && !if_before {
                return Some(viol(&["C17"], "lost-wakeup", i, format!("the wake-up interrupt was pending (IF=0) before enable_and_hlt, yet the processor halted with nothing left to wake it: {trace:?}")));
            }
            if w.cpu.hung {
                st.count("hlt_without_any_interrupt");
                // nothing can wake the processor in this scenario: end of the run (not a violation)
                return None;
            }
            st.count("enable_and_hlt_woken");
            if pending_before && !if_before {
                st.count("wakeup_pending_while_if0");
            }
        }
        st.count(if if_before { "action_with_if1" } else { "action_with_if0" });
        st.add("deliveries", trace.iter().filter(|e| matches!(e, Ev::Deliver { .. })).count() as u64);
        st.add("stepped_instructions", w.mon_steps);
        let depth = |a: &Act| -> u64 {
            fn d(a: &Act) -> u64 {
                match a {
                    Act::Wi { body, .. } => 1 + body.iter().map(d).max().unwrap_or(0),
                    Act::Window { body } => body.iter().map(d).max().unwrap_or(0),
                    _ => 0,
                }
            }
            d(a)
        };
        let kind = match a {
            Act::Wi { .. } => 0,
            Act::Pair => 1,
            Act::Nest2 { .. } => 9,
            Act::Probe3 => 10,
            Act::Shared(_) => 11,
            Act::Deep { .. } => 12,
            Act::Leaf { kind, .. } => 13 + *kind as u64,
            Act::Enable => 2,
            Act::Disable => 3,
            Act::AreEnabled => 4,
            Act::EnableAndHlt(_) => 5,
            Act::Arrive(_) => 6,
            Act::ArriveLater(..) => 7,
            Act::Work(_) => 8,
            Act::SysFlag(_) => 16,
            Act::Window { .. } => 17,
        };
        st.distinct_key(&[kind, if_before as u64, depth(a), pending_before as u64, trace.iter().filter(|e| matches!(e, Ev::Deliver { .. })).count().min(3) as u64, trace.len().min(40) as u64]);
    }
    None
}

pub fn simplify(rp: &Replay) -> Vec<Replay> {
    let mut out = vec![];
    // flatten: replace a wi step by its body, or empty its body
    for (i, s) in rp.steps.iter().enumerate() {
        if s["op"] == "wi" {
            let mut c = rp.clone();
            c.steps[i]["body"] = json!([]);
            out.push(c);
            if let Some(b) = s["body"].as_array() {
                for k in 0..b.len() {
                    let mut c = rp.clone();
                    c.steps[i]["body"].as_array_mut().unwrap().remove(k);
                    out.push(c);
                }
            }
        }
    }
    out
}
