//! C11 (standalone flush part) — `tlb::flush`, `tlb::flush_pcid` and the `Invlpgb` broadcast
//! builder invalidate exactly what they are asked to.
//!
//! Environment: the trapped `invlpg` / `invpcid` / `invlpgb` / `tlbsync` instructions with their
//! operands as the simulated CPU sees them (the INVPCID descriptor is read from memory by the
//! simulator), the simulated TLB, and — for `Invlpgb::new()` — the simulated CS selector and CPUID
//! leaves 0x8000_0008 / 0x8000_000a (monitor mode).  The reference models below are written from
//! the SDM (INVLPG, INVPCID) and the APM (INVLPGB, TLBSYNC); no getter of the crate is used to
//! decide anything about the thing under test.

use serde_json::{json, Value};
use std::collections::BTreeMap;
use usim::cpu::{Cpu, CpuidParams, Ev, TlbEntry, CR4_PCIDE};
use usim::driver::{viol, Replay, Stats, Violation};
use usim::hwwalk::PgSize;
use usim::prng::Rng;
use usim::world::{monitor, sut_call, usim_mon_exit_point, world};
use x86_64::instructions::tlb::{self, InvPcidCommand, Invlpgb, InvlpgbFlushBuilder, Pcid};
use x86_64::structures::paging::page::{NotGiantPageSize, PageRange};
use x86_64::structures::paging::{Page, Size2MiB, Size4KiB};
use x86_64::VirtAddr;

const P: &[&str] = &["C11"];
const HALF: u64 = 1 << 47;
const SPACE: u64 = 1 << 48;
const K4: u64 = 1 << 12;
const M2: u64 = 1 << 21;
/// upper bound on the number of `invlpgb` requests one generated range may need
const REQ_CAP: u64 = 1500;

// ---- canonical addresses as 48-bit "linear" numbers ------------------------------------------
// lower half = [0, 2^47), upper half = [2^47, 2^48); stepping over 2^47 is stepping over the gap.

fn lin(va: u64) -> u64 {
    va & (SPACE - 1)
}
fn canon(l: u64) -> u64 {
    let l = l & (SPACE - 1);
    if l & HALF != 0 {
        l | 0xffff_0000_0000_0000
    } else {
        l
    }
}
fn is_canonical(va: u64) -> bool {
    canon(lin(va)) == va
}

// ---- generator -------------------------------------------------------------------------------

fn gen_addr(rng: &mut Rng) -> u64 {
    let a = match rng.below(12) {
        0 => 0,
        1 => 0x0000_7fff_ffff_ffff,
        2 => 0xffff_8000_0000_0000,
        3 => u64::MAX,
        4 => 0x0000_7fff_ffff_f000,
        5 => 0xffff_ffff_ffff_f000,
        6 => canon(1 << rng.below(48)),
        _ => canon(rng.next()),
    };
    match rng.below(4) {
        0 => a & !0xfff,
        1 => a & !0x1f_ffff,
        _ => a,
    }
}

fn gen_pcid(rng: &mut Rng) -> u64 {
    match rng.below(8) {
        0 => 0,
        1 => 4095,
        2 => 1,
        3 => 1 << rng.below(12),
        _ => rng.below(4096),
    }
}

/// a TLB population around (`pcid`, `addr`): entries that cover the address and entries that do
/// not, under the same and under other PCIDs, global and not, of all three sizes
fn gen_tlb(rng: &mut Rng, pcid: u64, addr: u64) -> Vec<Value> {
    let mut out = vec![];
    let n = rng.range(2, 10);
    for _ in 0..n {
        let p = match rng.below(4) {
            0 | 1 => pcid,
            2 => (pcid + 1 + rng.below(3)) % 4096,
            _ => gen_pcid(rng),
        };
        let size = rng.below(3);
        let bytes = [K4, M2, 1 << 30][size as usize];
        let va = match rng.below(5) {
            0 | 1 => addr,
            2 => canon(lin(addr).wrapping_add(bytes)),
            3 => canon(lin(addr).wrapping_sub(bytes)),
            _ => canon(rng.next()),
        } & !(bytes - 1);
        out.push(json!({"pcid": p, "va": va, "size": size, "global": rng.chance(30), "frame": rng.below(1 << 20) << 12}));
    }
    out
}

/// The simulated processor (what CPUID reports about INVLPGB).  It is a property of the *process*:
/// CPUID answers do not change while a program runs, and an implementation may rely on that (cache
/// the decoded limits), so all runs a worker executes in one process see the same processor.  The
/// identity is derived from the seed block, the worker's residue class (seeds of one worker are
/// congruent mod 16) and the flavour's seed offset; the sixteen release workers cover the special
/// maxima in every check, the others draw theirs.
fn gen_cpu(seed: u64) -> (bool, u64, bool, u64) {
    // the seeds of one worker are congruent mod 16; the debug flavour explores its own block of
    // seeds from offset 500_000_000 on.  Nothing else enters the identity, so it cannot change
    // while a worker walks through its seeds, whatever the tier and the seed block.
    let k = (seed % 16) as usize;
    let dbg = seed % 1_000_000_000 >= 500_000_000;
    const MAX_RELEASE: [u64; 16] = [0, 1, 2, 3, 7, 8, 16, 63, 64, 255, 256, 4095, 32768, 65534, 65535, 100];
    const MAX_DBG: [u64; 16] = [5, 31, 32, 33, 127, 128, 1000, 1023, 1024, 8191, 8192, 16384, 40000, 65533, 9, 300];
    const NASID: [u64; 16] = [0, 1, 2, 0x8000, 65535, 65536, 0x1_0000_0000 - 1, 16, 255, 256, 4096, 12345, 3, 0x7fff, 0x12_3456, 40000];
    let max = if dbg { MAX_DBG[k] } else { MAX_RELEASE[k] };
    let nasid = NASID[(k + if dbg { 5 } else { 0 }) % 16];
    let supported = !(dbg && k == 15);
    (supported, max, (k + dbg as usize) % 2 == 0, nasid)
}

fn gen_new(rng: &mut Rng, cpu: (bool, u64, bool, u64)) -> Value {
    // ring 0 selectors mostly; a selector with RPL != 0 is the documented panic
    let cs = if rng.chance(4) { *rng.pick(&[0x33u64, 0x1b, 0x9, 0xa, 0x23]) } else { *rng.pick(&[0x8u64, 0x8, 0x8, 0x10, 0x38, 0xfff8]) };
    json!({"op": "new", "cs": cs, "invlpgb": cpu.0, "max": cpu.1, "nested": cpu.2, "nasid": cpu.3})
}

fn gen_bcast(rng: &mut Rng, max: u64, nasid: u64) -> Value {
    let two_m = rng.chance(40);
    let size = if two_m { M2 } else { K4 };
    let unit = max.max(1);
    let len = match rng.below(12) {
        0 => 0,
        1 => 1,
        2 => 2,
        3 => unit.saturating_sub(1),
        4 => unit,
        5 => unit + 1,
        6 => 2 * unit,
        7 => 2 * unit + 1,
        8 => rng.below(unit + 1),
        9 => 65535 + rng.below(3),
        _ => rng.below((REQ_CAP * unit).min(400_000)),
    }
    .min(REQ_CAP * unit);
    let total = SPACE / size;
    let half = HALF / size;
    // start page number in linear space
    let start = match rng.below(12) {
        0 => 0,
        // ends exactly at the lower-half end
        1 | 2 => half.saturating_sub(len),
        // reaches across the gap
        3 | 4 => half.saturating_sub(rng.below(len + 1)),
        // begins at the start of the upper half
        5 => half,
        // ends at the last page (exclusive end = last page)
        6 | 7 => (total - 1).saturating_sub(len),
        // ends a few pages before the lower-half end
        8 => half.saturating_sub(len + rng.below(4)),
        9 => rng.below(half),
        _ => half + rng.below(half),
    };
    let start = start.min(total - 1 - len.min(total - 1));
    let mut s = json!({
        "op": "bcast", "size": size, "start": canon(start * size), "len": len,
        "global": rng.chance(40), "final": rng.chance(40), "nested": rng.chance(30),
        "pages_first": rng.chance(50), "no_pages": rng.chance(6), "inverted": rng.chance(3),
    });
    if rng.chance(45) {
        s["pcid"] = json!(gen_pcid(rng));
    }
    if nasid < 65536 && rng.chance(15) {
        // an ASID the processor does not have is asked for first; the error is ignored and the
        // same builder is used for the flush
        s["rejected_first"] = json!(if rng.chance(50) { nasid } else { nasid + rng.below(65536 - nasid) });
    }
    if rng.chance(45) {
        s["asid"] = json!(match rng.below(6) {
            0 => 0,
            1 => nasid.min(65535),
            2 => nasid.saturating_sub(1).min(65535),
            3 => (nasid + 1).min(65535),
            4 => 65535,
            _ => rng.below(65536),
        });
    }
    s
}

pub fn gen(seed: u64) -> Replay {
    let mut rng = Rng::new(seed ^ 0xc11);
    let cpu = gen_cpu(seed);
    let n = rng.range(2, 14);
    let mut steps = vec![];
    let mut cur: Option<(u64, u64)> = None;
    for _ in 0..n {
        let k = if cur.is_none() { rng.weighted(&[3, 4, 4, 0, 0, 2]) } else { rng.weighted(&[1, 2, 2, 8, 1, 1]) };
        match k {
            0 => {
                let s = gen_new(&mut rng, cpu);
                let ok = s["invlpgb"] == json!(true) && s["cs"].as_u64().unwrap() & 3 == 0;
                cur = if ok { Some((s["max"].as_u64().unwrap(), s["nasid"].as_u64().unwrap())) } else { None };
                steps.push(s);
            }
            1 => {
                let addr = gen_addr(&mut rng);
                let cur_pcid = gen_pcid(&mut rng);
                let tlb = gen_tlb(&mut rng, cur_pcid, addr);
                steps.push(json!({"op": "flush", "addr": addr, "cur_pcid": cur_pcid, "tlb": tlb}));
            }
            2 => {
                let addr = gen_addr(&mut rng);
                let pcid = gen_pcid(&mut rng);
                let cur_pcid = if rng.chance(50) { pcid } else { gen_pcid(&mut rng) };
                let tlb = gen_tlb(&mut rng, pcid, addr);
                steps.push(json!({"op": "invpcid", "kind": rng.below(4), "pcid": pcid, "addr": addr, "cur_pcid": cur_pcid, "tlb": tlb}));
            }
            3 => {
                let (max, nasid) = cur.unwrap();
                steps.push(gen_bcast(&mut rng, max, nasid));
            }
            4 => steps.push(json!({"op": "tlbsync"})),
            _ => {
                // address-space switch followed by a complete flush, all in one function
                let root = |rng: &mut Rng| (rng.below(1 << 40) << 12) | (rng.below(4) << 3);
                let (old, new) = (root(&mut rng), root(&mut rng));
                let addr = gen_addr(&mut rng);
                let tlb = gen_tlb(&mut rng, 0, addr);
                steps.push(json!({"op": "switch", "old": old, "new": new, "reads_before": rng.below(3), "tlb": tlb}));
            }
        }
    }
    Replay { property: "C11".into(), simulator: "cpusim".into(), seed, config: json!({}), steps, violation: None, minimised_from_steps: None }
}

// ---- reference model of the TLB instructions (SDM vol. 2 INVLPG / INVPCID, vol. 3 §4.10.4) ------

type Key = (u16, u64);

fn size_of(code: u64) -> PgSize {
    match code {
        0 => PgSize::K4,
        1 => PgSize::M2,
        _ => PgSize::G1,
    }
}

fn covers(start: u64, e: &TlbEntry, addr: u64) -> bool {
    addr & !(e.size.bytes() - 1) == start
}

/// which entries must be gone afterwards
fn must_drop(op: &str, kind: u64, pcid: u16, cur_pcid: u16, addr: u64, key: &Key, e: &TlbEntry) -> bool {
    match (op, kind) {
        // INVLPG: translations for the address under the current PCID, and global ones
        ("flush", _) => covers(key.1, e, addr) && (key.0 == cur_pcid || e.global),
        // individual-address: (pcid, address), except global
        (_, 0) => covers(key.1, e, addr) && key.0 == pcid && !e.global,
        // single-context: pcid, except global
        (_, 1) => key.0 == pcid && !e.global,
        // all-context including global
        (_, 2) => true,
        // all-context except global
        _ => !e.global,
    }
}

fn install_tlb(s: &Value) -> BTreeMap<Key, TlbEntry> {
    let w = world();
    w.cpu.tlb.map.clear();
    for t in s["tlb"].as_array().cloned().unwrap_or_default() {
        let e = TlbEntry { frame: t["frame"].as_u64().unwrap_or(0), size: size_of(t["size"].as_u64().unwrap_or(0)), leaf_flags: 1, global: t["global"].as_bool().unwrap_or(false) };
        w.cpu.tlb.insert(t["pcid"].as_u64().unwrap_or(0) as u16, t["va"].as_u64().unwrap_or(0), e);
    }
    w.cpu.tlb.map.clone()
}

fn check_tlb(op: &str, i: usize, kind: u64, pcid: u16, cur_pcid: u16, addr: u64, before: &BTreeMap<Key, TlbEntry>, st: &mut Stats) -> Option<Violation> {
    let after = &world().cpu.tlb.map;
    let (mut dropped, mut kept) = (0u64, 0u64);
    for (k, e) in before {
        let want_gone = must_drop(op, kind, pcid, cur_pcid, addr, k, e);
        let gone = !after.contains_key(k);
        if want_gone != gone {
            let what = if want_gone { "survived although it is designated by the request" } else { "was invalidated although the request does not designate it" };
            return Some(viol(P, "tlb-effect", i, format!("{op} kind {kind} pcid {pcid} addr {addr:#x} (current PCID {cur_pcid}): TLB entry (pcid {}, va {:#x}, {:?}, global={}) {what}", k.0, k.1, e.size, e.global)));
        }
        if gone {
            dropped += 1
        } else {
            kept += 1
        }
    }
    if after.keys().any(|k| !before.contains_key(k)) {
        return Some(viol(P, "tlb-effect", i, format!("{op}: TLB entries appeared that were not there before")));
    }
    if dropped > 0 {
        st.count("tlb_entries_dropped");
    }
    if kept > 0 {
        st.count("tlb_entries_kept");
    }
    if dropped > 0 && kept > 0 {
        st.count("tlb_mixed_drop_and_keep");
    }
    None
}

// ---- broadcast builder -----------------------------------------------------------------------

#[derive(Clone, Debug)]
struct Opts {
    pcid: Option<u16>,
    asid: Option<u16>,
    global: bool,
    fin: bool,
    nested: bool,
    pages_first: bool,
    /// an out-of-range ASID whose rejection is ignored before the other options are applied
    rejected_first: Option<u16>,
}

static REJECT_ACCEPTED: std::sync::atomic::AtomicBool = std::sync::atomic::AtomicBool::new(false);

#[derive(Debug, PartialEq, Eq)]
enum Outcome {
    Flushed,
    AsidRejected,
}

fn apply<'a, S: NotGiantPageSize>(mut b: InvlpgbFlushBuilder<'a, S>, o: &Opts) -> Option<InvlpgbFlushBuilder<'a, S>> {
    if let Some(bad) = o.rejected_first {
        if unsafe { b.asid(bad) }.is_ok() {
            REJECT_ACCEPTED.store(true, std::sync::atomic::Ordering::Relaxed);
        }
    }
    if let Some(p) = o.pcid {
        unsafe { b.pcid(Pcid::new(p).unwrap()) };
    }
    if let Some(a) = o.asid {
        if unsafe { b.asid(a) }.is_err() {
            return None;
        }
    }
    if o.global {
        b.include_global();
    }
    if o.fin {
        b.final_translation_only();
    }
    if o.nested {
        b = b.include_nested_translations();
    }
    Some(b)
}

fn do_bcast<S: NotGiantPageSize>(inv: &Invlpgb, range: Option<PageRange<S>>, o: &Opts) -> Outcome {
    match range {
        None => match apply(inv.build(), o) {
            Some(b) => b.flush(),
            None => return Outcome::AsidRejected,
        },
        Some(r) if o.pages_first => match apply(inv.build().pages(r), o) {
            Some(b) => b.flush(),
            None => return Outcome::AsidRejected,
        },
        Some(r) => match apply(inv.build(), o) {
            Some(b) => b.pages(r).flush(),
            None => return Outcome::AsidRejected,
        },
    }
    Outcome::Flushed
}

fn page_range<S: NotGiantPageSize>(start: u64, end: u64) -> PageRange<S> {
    Page::range(Page::<S>::containing_address(VirtAddr::new(start)), Page::<S>::containing_address(VirtAddr::new(end)))
}

/// documented panics are outcomes here, not console noise (USIM_PANIC_TRACE=1 keeps the messages)
struct SilentPanics(Option<Box<dyn Fn(&std::panic::PanicHookInfo<'_>) + Sync + Send + 'static>>);
impl SilentPanics {
    fn new() -> Self {
        if std::env::var_os("USIM_PANIC_TRACE").is_some() {
            return SilentPanics(None);
        }
        let old = std::panic::take_hook();
        std::panic::set_hook(Box::new(|_| {}));
        SilentPanics(Some(old))
    }
}
impl Drop for SilentPanics {
    fn drop(&mut self) {
        if let Some(h) = self.0.take() {
            std::panic::set_hook(h);
        }
    }
}

/// the bits of one request that do not depend on the range
fn check_request_bits(i: usize, k: usize, rax: u64, ecx: u32, edx: u32, o: &Opts, st: &mut Stats) -> Option<Violation> {
    let bit = |n: u32| rax >> n & 1 != 0;
    if bit(1) != o.pcid.is_some() {
        return Some(viol(P, "invlpgb-pcid", i, format!("request {k}: RAX bit 1 (PCID valid) = {} but pcid option = {:?} (rax {rax:#x})", bit(1) as u8, o.pcid)));
    }
    if let Some(p) = o.pcid {
        let got = edx >> 16 & 0xfff;
        if got != p as u32 {
            return Some(viol(P, "invlpgb-pcid", i, format!("request {k}: EDX[27:16] = {got} but the requested PCID is {p} (edx {edx:#x})")));
        }
    }
    if bit(2) != o.asid.is_some() {
        return Some(viol(P, "invlpgb-asid", i, format!("request {k}: RAX bit 2 (ASID valid) = {} but asid option = {:?} (rax {rax:#x})", bit(2) as u8, o.asid)));
    }
    if let Some(a) = o.asid {
        let got = edx & 0xffff;
        if got != a as u32 {
            return Some(viol(P, "invlpgb-asid", i, format!("request {k}: EDX[15:0] = {got} but the requested ASID is {a} (edx {edx:#x})")));
        }
    }
    for (n, want, name) in [(3, o.global, "include global"), (4, o.fin, "final translation only"), (5, o.nested, "include nested translations")] {
        if bit(n) != want {
            return Some(viol(P, "invlpgb-option-bit", i, format!("request {k}: RAX bit {n} ({name}) = {} but the option was {} (rax {rax:#x})", bit(n) as u8, if want { "requested" } else { "not requested" })));
        }
    }
    // reserved fields: recorded, not judged (the property does not speak about them)
    if rax >> 6 & 0x3f != 0 || ecx >> 16 & 0x7fff != 0 || edx >> 28 != 0 {
        st.count("invlpgb_reserved_bits_nonzero");
    }
    None
}

#[allow(clippy::too_many_arguments)]
fn check_bcast_trace(i: usize, trace: &[Ev], size: u64, rs: u64, len: u64, has_pages: bool, max: u64, o: &Opts, st: &mut Stats) -> Option<Violation> {
    let sname = if size == M2 { "2 MiB" } else { "4 KiB" };
    let mut reqs: Vec<(u64, u32, u32)> = vec![];
    for e in trace {
        match e {
            Ev::Invlpgb { rax, ecx, edx } => reqs.push((*rax, *ecx, *edx)),
            Ev::Fault { vec, why } => return Some(viol(P, "invlpgb-fault", i, format!("the simulated processor (count max {max}) refused request {} with vector {vec}: {why}", reqs.len().saturating_sub(1)))),
            other => return Some(viol(P, "invlpgb-trace", i, format!("broadcast flush executed {other:x?}; only invlpgb is expected"))),
        }
    }
    if !has_pages {
        if reqs.len() != 1 {
            return Some(viol(P, "invlpgb-no-pages", i, format!("flush() without a page range executed {} invlpgb requests, expected exactly one", reqs.len())));
        }
        let (rax, ecx, edx) = reqs[0];
        if rax & 1 != 0 {
            return Some(viol(P, "invlpgb-no-pages", i, format!("flush() without a page range set RAX bit 0 (address valid): rax {rax:#x}")));
        }
        return check_request_bits(i, 0, rax, ecx, edx, o, st);
    }
    if reqs.len() as u64 > len + 2 {
        return Some(viol(P, "invlpgb-request-count", i, format!("{} requests for a range of {len} {sname} pages", reqs.len())));
    }
    // intervals in linear page-aligned byte space under the crate's reading (count field c covers
    // max(c,1) pages) — the reading the coverage oracle is judged under
    let re = rs + len * size;
    let mut ivs: Vec<(u64, u64)> = vec![];
    let (mut apm_outside, mut apm_gap, mut apm_differs, mut over) = (false, false, false, false);
    for (k, &(rax, ecx, edx)) in reqs.iter().enumerate() {
        if rax & 1 == 0 {
            return Some(viol(P, "invlpgb-address-valid", i, format!("request {k} of a ranged flush has RAX bit 0 (address valid) clear: rax {rax:#x}")));
        }
        if let Some(v) = check_request_bits(i, k, rax, ecx, edx, o, st) {
            return Some(v);
        }
        let c = (ecx & 0xffff) as u64;
        if c > max.min(65535) {
            return Some(viol(P, "invlpgb-count-max", i, format!("request {k}: ECX[15:0] = {c} exceeds the processor maximum {max}")));
        }
        if (ecx >> 31 != 0) != (size == M2) {
            return Some(viol(P, "invlpgb-size-bit", i, format!("request {k}: ECX bit 31 = {} for a range of {sname} pages (ecx {ecx:#x})", ecx >> 31)));
        }
        let va = rax & !0xfff;
        if !is_canonical(va) {
            return Some(viol(P, "invlpgb-address", i, format!("request {k}: RAX[63:12] holds the non-canonical address {va:#x}")));
        }
        let s = lin(va) & !(size - 1);
        let lower = s < HALF;
        let bound = if lower { HALF } else { SPACE };
        let n = c.max(1);
        let e = s + n * size;
        if lower && e > HALF {
            return Some(viol(P, "invlpgb-gap", i, format!("request {k} starts at {va:#x} in the lower half and covers {n} {sname} pages: it extends {} page(s) into the non-canonical gap", (e - HALF) / size)));
        }
        let e = e.min(bound);
        if s < rs || e > re {
            over = true;
        }
        ivs.push((s, e));
        // AMD APM reading: ECX[15:0] = number of *additional* pages
        let e_apm = s + (c + 1) * size;
        if c >= 1 {
            apm_differs = true;
        }
        if lower && e_apm > HALF {
            apm_gap = true;
        }
        if e_apm.min(bound) > re {
            apm_outside = true;
        }
    }
    ivs.sort();
    let mut cur = rs;
    for &(s, e) in &ivs {
        if s <= cur && e > cur {
            cur = e;
        }
    }
    if cur < re {
        return Some(viol(P, "invlpgb-coverage", i, format!("the {sname} page at {:#x} of the range [{:#x}, {:#x}) ({len} pages) is covered by none of the {} requests (processor maximum {max})", canon(cur), canon(rs), canon(re), reqs.len())));
    }
    if over {
        st.count("invlpgb_request_beyond_range");
    }
    if apm_differs {
        st.count("apm_reading_differs(count=additional pages)");
    }
    if apm_outside {
        st.count("apm_reading_flushes_page_beyond_range_end");
    }
    if apm_gap {
        st.count("apm_reading_request_reaches_into_gap");
    }
    if reqs.len() > 1 {
        st.count("bcast_multi_request");
    }
    if rs < HALF && re > HALF {
        st.count("bcast_range_across_gap");
    }
    if rs < HALF && re == HALF {
        st.count("bcast_range_ends_at_lower_half_end");
    }
    if re == SPACE - size {
        st.count("bcast_range_ends_at_last_page");
    }
    st.add("invlpgb_requests", reqs.len() as u64);
    None
}

// ---- run -------------------------------------------------------------------------------------

struct Cur {
    inv: Invlpgb,
    max: u64,
    nested: bool,
    nasid: u64,
}

pub fn run(rp: &Replay, st: &mut Stats) -> Option<Violation> {
    let _quiet = SilentPanics::new();
    let w = world();
    w.cpu = Cpu::default();
    w.cpu.cr4 |= CR4_PCIDE;
    w.trap_budget = 1 << 20;
    let mut cur: Option<Cur> = None;
    for (i, s) in rp.steps.iter().enumerate() {
        st.steps += 1;
        let op = s["op"].as_str().unwrap_or("");
        match op {
            "new" => {
                let cs = s["cs"].as_u64().unwrap_or(8) as u16;
                let has = s["invlpgb"].as_bool().unwrap_or(true);
                let max = s["max"].as_u64().unwrap_or(0) & 0xffff;
                let nested = s["nested"].as_bool().unwrap_or(false);
                let nasid = s["nasid"].as_u64().unwrap_or(0) & 0xffff_ffff;
                let w = world();
                w.cpu.sel[1] = cs;
                w.cpu.cpuid = CpuidParams { invlpgb: has, invlpgb_max: max as u16, nested, nasid: nasid as u32 };
                w.cpuid_intercept = true;
                w.mon_budget = 2_500;
                let r = sut_call("Invlpgb::new", || monitor(Invlpgb::new));
                st.calls += 1;
                // a panic unwinds past the monitor's exit point: leave monitor mode by hand
                if world().mon_active {
                    usim_mon_exit_point();
                    world().mon_active = false;
                }
                let w = world();
                w.cpu.sel[1] = 0x33;
                let overrun = w.mon_overrun;
                st.add("new_stepped_instructions", w.mon_steps);
                cur = None;
                st.distinct_key(&[1, (cs & 3) as u64, has as u64, max.min(3), (max == 65535) as u64, nested as u64, nasid.min(2), (nasid > 65535) as u64]);
                match r {
                    Err(m) => {
                        if cs & 3 == 0 {
                            return Some(viol(P, "panic", i, format!("Invlpgb::new() panicked at CPL 0 (CS {cs:#x}): {m}")));
                        }
                        st.count("new_panics_outside_ring0(documented)");
                    }
                    Ok(got) => {
                        if overrun {
                            return Some(viol(P, "no-progress", i, "Invlpgb::new() did not finish within 2500 single-stepped instructions".into()));
                        }
                        if cs & 3 != 0 {
                            return Some(viol(P, "new-cpl-check", i, format!("Invlpgb::new() returned although CS = {cs:#x} (CPL {}); the documentation promises a panic", cs & 3)));
                        }
                        match got {
                            None => {
                                if has {
                                    return Some(viol(P, "new-support", i, "CPUID 0x8000_0008 EBX bit 3 (INVLPGB) is set but Invlpgb::new() returned None".into()));
                                }
                                st.count("new_none_when_unsupported");
                            }
                            Some(inv) => {
                                if !has {
                                    return Some(viol(P, "new-support", i, "CPUID 0x8000_0008 EBX bit 3 (INVLPGB) is clear but Invlpgb::new() returned Some".into()));
                                }
                                let g = (inv.invlpgb_count_max() as u64, inv.tlb_flush_nested(), inv.nasid() as u64);
                                if g != (max, nested, nasid) {
                                    return Some(viol(P, "new-limits", i, format!("simulated CPUID says count max {max}, nested {nested}, nasid {nasid}; Invlpgb reports count max {}, nested {}, nasid {}", g.0, g.1, g.2)));
                                }
                                cur = Some(Cur { inv, max, nested, nasid });
                            }
                        }
                    }
                }
            }
            "flush" | "invpcid" => {
                let addr = s["addr"].as_u64().unwrap_or(0);
                if !is_canonical(addr) {
                    continue;
                }
                let pcid = (s["pcid"].as_u64().unwrap_or(0) & 0xfff) as u16;
                let cur_pcid = (s["cur_pcid"].as_u64().unwrap_or(0) & 0xfff) as u16;
                let kind = if op == "flush" { 0 } else { s["kind"].as_u64().unwrap_or(0) & 3 };
                let w = world();
                w.cpu.cr4 |= CR4_PCIDE;
                w.cpu.cr3 = 0x1000 | cur_pcid as u64;
                let before = install_tlb(s);
                let r = if op == "flush" {
                    sut_call("tlb::flush", || tlb::flush(VirtAddr::new(addr)))
                } else {
                    let p = Pcid::new(pcid).unwrap();
                    let cmd = match kind {
                        0 => InvPcidCommand::Address(VirtAddr::new(addr), p),
                        1 => InvPcidCommand::Single(p),
                        2 => InvPcidCommand::All,
                        _ => InvPcidCommand::AllExceptGlobal,
                    };
                    sut_call("tlb::flush_pcid", || unsafe { tlb::flush_pcid(cmd) })
                };
                st.calls += 1;
                if let Err(m) = r {
                    return Some(viol(P, "panic", i, format!("{op} panicked: {m}")));
                }
                let trace = std::mem::take(&mut world().cpu.trace);
                if op == "flush" {
                    if trace != [Ev::Invlpg { addr }] {
                        return Some(viol(P, "invlpg-operand", i, format!("flush({addr:#x}) executed {trace:x?}, expected exactly one invlpg of {addr:#x}")));
                    }
                } else {
                    let kname = ["Address", "Single", "All", "AllExceptGlobal"][kind as usize];
                    if trace.len() != 1 {
                        return Some(viol(P, "invpcid-count", i, format!("flush_pcid({kname}) executed {trace:x?}, expected exactly one invpcid")));
                    }
                    let Ev::Invpcid { kind: gk, pcid: d0, addr: d1 } = trace[0] else {
                        return Some(viol(P, "invpcid-count", i, format!("flush_pcid({kname}) executed {:x?}, expected invpcid", trace[0])));
                    };
                    if gk != kind {
                        return Some(viol(P, "invpcid-type", i, format!("flush_pcid({kname}) put {gk} into the type register, the architecture numbers this type {kind}")));
                    }
                    if d0 >> 12 != 0 {
                        return Some(viol(P, "invpcid-descriptor", i, format!("flush_pcid({kname}, pcid {pcid}): descriptor bits 63:12 are not zero: first quadword {d0:#x}")));
                    }
                    if kind <= 1 && d0 != pcid as u64 {
                        return Some(viol(P, "invpcid-descriptor", i, format!("flush_pcid({kname}, pcid {pcid}): descriptor holds PCID {d0}")));
                    }
                    if kind == 0 && d1 != addr {
                        return Some(viol(P, "invpcid-descriptor", i, format!("flush_pcid(Address({addr:#x}), pcid {pcid}): descriptor holds address {d1:#x}")));
                    }
                    if (kind >= 1 && d1 != 0) || (kind >= 2 && d0 != 0) {
                        st.count("invpcid_unused_descriptor_field_nonzero");
                    }
                }
                if let Some(v) = check_tlb(op, i, kind, pcid, cur_pcid, addr, &before, st) {
                    return Some(v);
                }
                st.distinct_key(&[2, (op == "flush") as u64, kind, (addr >> 63), (addr & 0xfff != 0) as u64, (pcid == 0) as u64, (pcid == 4095) as u64, (pcid == cur_pcid) as u64, before.len().min(4) as u64]);
            }
            "switch" => {
                use x86_64::registers::control::Cr3;
                use x86_64::structures::paging::PhysFrame;
                use x86_64::PhysAddr;
                let old = s["old"].as_u64().unwrap_or(0x1000) & 0x000f_ffff_ffff_f018;
                let new = s["new"].as_u64().unwrap_or(0x2000) & 0x000f_ffff_ffff_f018;
                let reads = s["reads_before"].as_u64().unwrap_or(1).min(2);
                let w = world();
                w.cpu.cr4 &= !CR4_PCIDE;
                w.cpu.cr3 = old;
                let before = install_tlb(s);
                let r = sut_call("cr3 switch + flush_all", || {
                    let mut seen = 0u64;
                    for _ in 0..reads {
                        seen ^= Cr3::read_raw().0.start_address().as_u64();
                    }
                    unsafe { Cr3::write_raw(PhysFrame::containing_address(PhysAddr::new(new & !0xfff)), (new & 0xfff) as u16) };
                    tlb::flush_all();
                    let (f, v) = Cr3::read_raw();
                    (seen, f.start_address().as_u64() | v as u64)
                });
                st.calls += 1;
                let trace = std::mem::take(&mut world().cpu.trace);
                let (_, after) = match r {
                    Ok(x) => x,
                    Err(m) => return Some(viol(P, "panic", i, format!("cr3 switch + flush_all panicked: {m}"))),
                };
                // flush_all "reloads the root register with its current value": one write of the value
                // the register holds; how often the register is read around it is the implementation's
                // business (a read-back after the reload, say), anything but CR3 accesses is not
                let writes: Vec<u64> = trace.iter().filter_map(|e| if let Ev::WriteCr { cr: 3, val } = e { Some(*val) } else { None }).collect();
                let only_cr3 = trace.iter().all(|e| matches!(e, Ev::ReadCr { cr: 3, .. } | Ev::WriteCr { cr: 3, .. }));
                let reads_seen = trace.iter().filter(|e| matches!(e, Ev::ReadCr { cr: 3, .. })).count() as u64;
                if !only_cr3 || writes != [new, new] || reads_seen < reads + 2 {
                    return Some(viol(P, "flush-all-after-switch", i, format!("root register {old:#x}; {reads} reads, a switch to {new:#x}, flush_all() and a read in one function executed {trace:x?}; flush_all must reload the root register with its current value {new:#x}")));
                }
                if after != new || world().cpu.cr3 != new {
                    return Some(viol(P, "flush-all-after-switch", i, format!("after a switch to {new:#x} and flush_all() the root register holds {:#x} and reads back as {after:#x}", world().cpu.cr3)));
                }
                if world().cpu.tlb.map.values().any(|e| !e.global) || before.iter().any(|(k, e)| e.global && !world().cpu.tlb.map.contains_key(k)) {
                    return Some(viol(P, "tlb-effect", i, "flush_all left a non-global translation in the TLB or removed a global one".into()));
                }
                st.count("switch_then_flush_all");
                st.distinct_key(&[5, reads, (old == new) as u64, before.len().min(3) as u64]);
            }
            "tlbsync" => {
                let Some(c) = cur.as_ref() else { continue };
                world().cpu.cpuid = CpuidParams { invlpgb: true, invlpgb_max: c.max as u16, nested: c.nested, nasid: c.nasid as u32 };
                let inv = c.inv;
                let r = sut_call("tlbsync", || inv.tlbsync());
                st.calls += 1;
                if let Err(m) = r {
                    return Some(viol(P, "panic", i, format!("tlbsync panicked: {m}")));
                }
                let trace = std::mem::take(&mut world().cpu.trace);
                if trace != [Ev::Tlbsync] {
                    return Some(viol(P, "tlbsync", i, format!("tlbsync() executed {trace:x?}, expected exactly one tlbsync")));
                }
                st.distinct_key(&[3]);
            }
            "bcast" => {
                let Some(c) = cur.as_ref() else { continue };
                let size = if s["size"].as_u64().unwrap_or(K4) == M2 { M2 } else { K4 };
                let start = s["start"].as_u64().unwrap_or(0);
                if !is_canonical(start) {
                    continue;
                }
                let no_pages = s["no_pages"].as_bool().unwrap_or(false);
                let inverted = s["inverted"].as_bool().unwrap_or(false);
                let rs = lin(start) & !(size - 1);
                let len0 = s["len"].as_u64().unwrap_or(0).min(REQ_CAP * c.max.max(1)).min((SPACE - size - rs) / size);
                let re = rs + len0 * size;
                // an inverted range (start > end) is empty
                let (a, b, len) = if inverted && len0 > 0 { (canon(re), canon(rs), 0) } else { (canon(rs), canon(re), len0) };
                let o = Opts {
                    pcid: s["pcid"].as_u64().map(|p| (p & 0xfff) as u16),
                    asid: s["asid"].as_u64().map(|p| p as u16),
                    global: s["global"].as_bool().unwrap_or(false),
                    fin: s["final"].as_bool().unwrap_or(false),
                    nested: s["nested"].as_bool().unwrap_or(false),
                    pages_first: s["pages_first"].as_bool().unwrap_or(true),
                    rejected_first: s["rejected_first"].as_u64().filter(|&a| a >= c.nasid && a < 65536).map(|a| a as u16),
                };
                REJECT_ACCEPTED.store(false, std::sync::atomic::Ordering::Relaxed);
                let w = world();
                w.cpu.cpuid = CpuidParams { invlpgb: true, invlpgb_max: c.max as u16, nested: c.nested, nasid: c.nasid as u32 };
                // termination guard: the requests of one flush are bounded by len + 2
                w.trap_budget = len + 64;
                let inv = c.inv;
                let r = sut_call("invlpgb flush", || match (no_pages, size == M2) {
                    (true, _) => do_bcast::<Size4KiB>(&inv, None, &o),
                    (false, false) => do_bcast(&inv, Some(page_range::<Size4KiB>(a, b)), &o),
                    (false, true) => do_bcast(&inv, Some(page_range::<Size2MiB>(a, b)), &o),
                });
                st.calls += 1;
                world().trap_budget = 1 << 20;
                let trace = std::mem::take(&mut world().cpu.trace);
                if REJECT_ACCEPTED.load(std::sync::atomic::Ordering::Relaxed) {
                    return Some(viol(P, "asid-range", i, format!("asid({}) was accepted although the processor has only {} ASIDs", o.rejected_first.unwrap_or(0), c.nasid)));
                }
                if o.rejected_first.is_some() {
                    st.count("bcast_after_ignored_asid_rejection");
                }
                let n_inv = trace.iter().filter(|e| matches!(e, Ev::Invlpgb { .. })).count();
                let asid_bad = o.asid.map(|x| x as u64 >= c.nasid).unwrap_or(false);
                let nested_bad = o.nested && !c.nested;
                let class = if asid_bad {
                    1
                } else if nested_bad {
                    2
                } else {
                    0
                };
                st.distinct_key(&[4, (size == M2) as u64, class, no_pages as u64, len.min(3), (len > c.max) as u64, c.max.min(2), (c.max == 65535) as u64, (rs >= HALF) as u64, (re > HALF) as u64, o.pcid.is_some() as u64 | (o.asid.is_some() as u64) << 1 | (o.global as u64) << 2 | (o.fin as u64) << 3 | (o.nested as u64) << 4]);
                match r {
                    Err(m) => {
                        if asid_bad || !nested_bad {
                            return Some(viol(P, "panic", i, format!("broadcast flush of {len} pages at {:#x} (options {o:?}, processor max {}, nested {}, nasid {}) panicked: {m}", canon(rs), c.max, c.nested, c.nasid)));
                        }
                        if n_inv != 0 {
                            return Some(viol(P, "invlpgb-before-reject", i, format!("{n_inv} invlpgb executed before include_nested_translations() panicked")));
                        }
                        st.count("nested_unsupported_panics(documented)");
                    }
                    Ok(Outcome::AsidRejected) => {
                        if !asid_bad {
                            return Some(viol(P, "asid-range", i, format!("asid({}) was rejected although the processor has {} ASIDs", o.asid.unwrap_or(0), c.nasid)));
                        }
                        if n_inv != 0 {
                            return Some(viol(P, "invlpgb-before-reject", i, format!("{n_inv} invlpgb executed although asid() returned an error")));
                        }
                        st.count("asid_rejected");
                    }
                    Ok(Outcome::Flushed) => {
                        if asid_bad {
                            return Some(viol(P, "asid-range", i, format!("asid({}) was accepted although the processor has only {} ASIDs", o.asid.unwrap_or(0), c.nasid)));
                        }
                        if nested_bad {
                            return Some(viol(P, "nested-support", i, "include_nested_translations() succeeded although the processor does not support it (documented panic)".into()));
                        }
                        if let Some(v) = check_bcast_trace(i, &trace, size, rs, len, !no_pages, c.max, &o, st) {
                            return Some(v);
                        }
                        if no_pages {
                            st.count("bcast_without_pages");
                        } else if len == 0 {
                            st.count("bcast_empty_range");
                        }
                    }
                }
            }
            _ => {}
        }
    }
    None
}

pub fn simplify(rp: &Replay) -> Vec<Replay> {
    let mut out = vec![];
    for (i, s) in rp.steps.iter().enumerate() {
        let mut push = |k: &str, v: Value| {
            if !s[k].is_null() && s[k] != v {
                let mut c = rp.clone();
                c.steps[i][k] = v;
                out.push(c);
            }
        };
        match s["op"].as_str().unwrap_or("") {
            "flush" | "invpcid" => {
                push("tlb", json!([]));
                if let Some(t) = s["tlb"].as_array() {
                    if t.len() > 1 {
                        for k in 0..t.len() {
                            let mut t2 = t.clone();
                            t2.remove(k);
                            push("tlb", Value::Array(t2));
                        }
                    }
                }
                push("cur_pcid", json!(0));
            }
            "bcast" => {
                for k in ["global", "final", "nested", "no_pages", "inverted"] {
                    push(k, json!(false));
                }
                push("pages_first", json!(true));
                if let Some(l) = s["len"].as_u64() {
                    push("len", json!(l / 2));
                    push("len", json!(l.saturating_sub(1)));
                }
                for k in ["pcid", "asid"] {
                    if !s[k].is_null() {
                        let mut c = rp.clone();
                        c.steps[i].as_object_mut().unwrap().remove(k);
                        out.push(c);
                    }
                }
            }
            "new" => {
                push("nasid", json!(65536));
                push("nested", json!(true));
            }
            _ => {}
        }
    }
    out
}
