//! C14 — GDT contents, selectors and limit always agree.
//! Environment: the simulated CPU as the consumer of the crate's table.  `lgdt` is trapped and
//! sets the simulated GDTR; every selector the crate returned is then resolved the way the CPU
//! does it (GDTR.base + 8*index, within GDTR.limit) against the raw table memory.  Selectors are
//! *used* through the crate's `set_reg` / `load_tss`: the trapped (or, in monitor mode,
//! intercepted) instruction makes the simulated CPU fetch the descriptor through the crate's table
//! memory, apply the architectural checks and set the accessed / busy bit behind the crate's back.
//! The reference model is a plain `Vec<u64>` of slots plus the SDM rules for segment loads.

use serde_json::{json, Value};
use usim::cpu::{Cpu, DtReg, Ev};
use usim::driver::{viol, Replay, Stats, Violation};
use usim::prng::Rng;
use usim::world::{monitor, sut_call, world};
use x86_64::instructions::segmentation::{Segment, CS, DS, ES, FS, GS, SS};
use x86_64::instructions::tables::load_tss;
use x86_64::structures::gdt::{Descriptor, DescriptorFlags, GlobalDescriptorTable, SegmentSelector};
use x86_64::structures::tss::TaskStateSegment;

pub(crate) const P: &[&str] = &["C14"];

// ---- the table behind a trait object (MAX is a const generic) -----------------------------------

pub(crate) trait Tbl {
    fn append(&mut self, d: Descriptor) -> SegmentSelector;
    fn raw_entries(&self) -> Vec<u64>;
    fn entries_addr(&self) -> u64;
    fn limit(&self) -> u16;
    fn load(&self, as_static: bool);
    /// address and size of the whole object
    fn span(&self) -> (u64, usize);
    fn dup(&self) -> Box<dyn Tbl>;
    /// `other.clone_from(self)` where `other` is a table of the same capacity with `fill` more
    /// descriptors than an empty one (another number of used slots than `self`, usually)
    fn dup_over(&self, fill: u64) -> Box<dyn Tbl>;
}

/// Where the next tables are placed: the GDT only guarantees 8-byte alignment, malloc gives 16, so
/// half of the runs put the table at an address that is 8 mod 16 (set from the run's config).
pub(crate) static SHIFT8: core::sync::atomic::AtomicBool = core::sync::atomic::AtomicBool::new(false);

#[repr(C, align(16))]
struct Shifted<T> {
    pad: u64,
    t: T,
}

impl<T: Tbl + 'static> Tbl for Shifted<T> {
    fn append(&mut self, d: Descriptor) -> SegmentSelector {
        self.t.append(d)
    }
    fn raw_entries(&self) -> Vec<u64> {
        self.t.raw_entries()
    }
    fn entries_addr(&self) -> u64 {
        self.t.entries_addr()
    }
    fn limit(&self) -> u16 {
        self.t.limit()
    }
    fn load(&self, as_static: bool) {
        self.t.load(as_static)
    }
    fn span(&self) -> (u64, usize) {
        self.t.span()
    }
    fn dup(&self) -> Box<dyn Tbl> {
        self.t.dup()
    }
    fn dup_over(&self, fill: u64) -> Box<dyn Tbl> {
        self.t.dup_over(fill)
    }
}

fn place<T: Tbl + 'static>(t: T) -> Box<dyn Tbl> {
    if SHIFT8.load(core::sync::atomic::Ordering::Relaxed) {
        Box::new(Shifted { pad: 0, t })
    } else {
        Box::new(t)
    }
}

macro_rules! monomorphise {
    ($($n:literal),*) => {
        $(impl Tbl for GlobalDescriptorTable<$n> {
            fn append(&mut self, d: Descriptor) -> SegmentSelector {
                GlobalDescriptorTable::<$n>::append(self, d)
            }
            fn raw_entries(&self) -> Vec<u64> {
                self.entries().iter().map(|e| e.raw()).collect()
            }
            fn entries_addr(&self) -> u64 {
                self.entries().as_ptr() as u64
            }
            fn limit(&self) -> u16 {
                GlobalDescriptorTable::<$n>::limit(self)
            }
            fn load(&self, as_static: bool) {
                if as_static {
                    // the harness keeps the (boxed) table alive and in place while it is loaded
                    let r: &'static Self = unsafe { &*(self as *const Self) };
                    GlobalDescriptorTable::<$n>::load(r)
                } else {
                    unsafe { self.load_unsafe() }
                }
            }
            fn span(&self) -> (u64, usize) {
                (self as *const Self as u64, core::mem::size_of::<Self>())
            }
            fn dup(&self) -> Box<dyn Tbl> {
                place(self.clone())
            }
            fn dup_over(&self, fill: u64) -> Box<dyn Tbl> {
                let mut other = GlobalDescriptorTable::<$n>::empty();
                for k in 0..fill {
                    if other.entries().len() >= $n {
                        break;
                    }
                    GlobalDescriptorTable::<$n>::append(&mut other, Descriptor::UserSegment(0x00cf_9300_0000_ffff ^ (k << 16)));
                }
                other.clone_from(self);
                place(other)
            }
        })*
        /// `empty()` or `from_raw_entries(raw)`; panics of the crate propagate (call inside sut_call)
        pub(crate) fn make(max: usize, raw: Option<&[u64]>) -> Box<dyn Tbl> {
            match max {
                $($n => match raw {
                    Some(s) => place(GlobalDescriptorTable::<$n>::from_raw_entries(s)),
                    None => place(GlobalDescriptorTable::<$n>::empty()),
                },)*
                _ => unreachable!(),
            }
        }
        pub(crate) fn supported(max: usize) -> bool {
            [$($n as usize),*].contains(&max)
        }
    };
}
monomorphise!(1, 2, 3, 8, 9, 32, 8192);

/// Panics of the crate inside `sut_call` are expected outcomes here: do not print them.
pub(crate) fn quiet_panics() {
    static ONCE: std::sync::Once = std::sync::Once::new();
    ONCE.call_once(|| {
        let prev = std::panic::take_hook();
        std::panic::set_hook(Box::new(move |info| {
            if !world().in_sut {
                prev(info)
            }
        }));
    });
}

pub(crate) const NAMED: [&str; 10] = ["kernel_code_segment()", "kernel_data_segment()", "user_code_segment()", "user_data_segment()", "KERNEL_DATA", "KERNEL_CODE32", "KERNEL_CODE64", "USER_DATA", "USER_CODE32", "USER_CODE64"];

pub(crate) fn named(which: u64) -> Descriptor {
    match which % 10 {
        0 => Descriptor::kernel_code_segment(),
        1 => Descriptor::kernel_data_segment(),
        2 => Descriptor::user_code_segment(),
        3 => Descriptor::user_data_segment(),
        4 => Descriptor::UserSegment(DescriptorFlags::KERNEL_DATA.bits()),
        5 => Descriptor::UserSegment(DescriptorFlags::KERNEL_CODE32.bits()),
        6 => Descriptor::UserSegment(DescriptorFlags::KERNEL_CODE64.bits()),
        7 => Descriptor::UserSegment(DescriptorFlags::USER_DATA.bits()),
        8 => Descriptor::UserSegment(DescriptorFlags::USER_CODE32.bits()),
        _ => Descriptor::UserSegment(DescriptorFlags::USER_CODE64.bits()),
    }
}

/// the quadword(s) handed to `append`
pub(crate) fn words(d: &Descriptor) -> Vec<u64> {
    match *d {
        Descriptor::UserSegment(v) => vec![v],
        Descriptor::SystemSegment(lo, hi) => vec![lo, hi],
    }
}

// ---- reference model of segment loads (SDM vol. 2 MOV / RET / LTR, vol. 3 ch. 3, 5, 7) -----------

#[derive(Clone, Copy, Debug, PartialEq, Eq)]
pub(crate) enum Target {
    Es = 0,
    Cs = 1,
    Ss = 2,
    Ds = 3,
    Fs = 4,
    Gs = 5,
    Tr = 6,
}

impl Target {
    pub(crate) fn parse(s: &str) -> Target {
        match s {
            "es" => Target::Es,
            "cs" => Target::Cs,
            "ss" => Target::Ss,
            "fs" => Target::Fs,
            "gs" => Target::Gs,
            "tr" => Target::Tr,
            _ => Target::Ds,
        }
    }
    pub(crate) fn call(self) -> &'static str {
        ["ES::set_reg", "CS::set_reg", "SS::set_reg", "DS::set_reg", "FS::set_reg", "GS::set_reg", "load_tss"][self as usize]
    }
}

pub(crate) const NAMES: [&str; 7] = ["es", "cs", "ss", "ds", "fs", "gs", "tr"];

#[derive(Clone, Debug, PartialEq, Eq)]
pub(crate) struct Pred {
    pub accept: bool,
    /// acceptable exception vectors of a refusal (two where the manuals leave the order open)
    pub vecs: &'static [u8],
    pub why: &'static str,
}

fn ok() -> Pred {
    Pred { accept: true, vecs: &[], why: "all checks pass" }
}
fn gp(why: &'static str) -> Pred {
    Pred { accept: false, vecs: &[13], why }
}

pub(crate) fn canonical48(v: u64) -> bool {
    (((v << 16) as i64) >> 16) as u64 == v
}

/// What the architecture does when `sel` is loaded into `t` at privilege `cpl` with a GDT of the
/// given limit whose slot `i` holds `slot(i)`.
pub(crate) fn predict(t: Target, sel: u16, cpl: u8, limit: u16, slot: &dyn Fn(usize) -> u64) -> Pred {
    let rpl = (sel & 3) as u8;
    let idx = (sel >> 3) as usize;
    let null = sel & !3 == 0;
    let bytes: u64 = if t == Target::Tr { 16 } else { 8 };
    let in_limit = idx as u64 * 8 + bytes - 1 <= limit as u64;
    if t == Target::Tr && cpl != 0 {
        return gp("ltr is a privileged instruction");
    }
    if null {
        return match t {
            Target::Tr => gp("null selector into TR"),
            Target::Cs => gp("null selector into CS"),
            Target::Ss if cpl == 3 || rpl != cpl => gp("null selector into SS at CPL 3 or with RPL != CPL"),
            _ => ok(),
        };
    }
    if sel & 4 != 0 {
        return gp("selector refers to the (empty) LDT");
    }
    if !in_limit {
        return gp("descriptor beyond the GDT limit");
    }
    let lo = slot(idx);
    let typ = (lo >> 40) & 0xf;
    let s = lo >> 44 & 1 != 0;
    let dpl = ((lo >> 45) & 3) as u8;
    let present = lo >> 47 & 1 != 0;
    let code = s && typ & 8 != 0;
    let data = s && typ & 8 == 0;
    let conforming = code && typ & 4 != 0;
    match t {
        Target::Tr => {
            let hi = slot(idx + 1);
            if s || typ != 9 {
                return gp("not an available 64-bit TSS descriptor");
            }
            let base = ((lo >> 16) & 0xff_ffff) | (((lo >> 56) & 0xff) << 24) | ((hi & 0xffff_ffff) << 32);
            let upper_bad = (hi >> 40) & 0x1f != 0 || !canonical48(base);
            if !present {
                return Pred { accept: false, vecs: if upper_bad { &[11, 13] } else { &[11] }, why: "TSS descriptor not present" };
            }
            if upper_bad {
                return gp("upper half of the TSS descriptor: type field not zero or base not canonical");
            }
            ok()
        }
        Target::Cs => {
            if !code {
                return gp("not a code segment");
            }
            if rpl < cpl {
                return gp("far return to a more privileged level (RPL < CPL)");
            }
            if conforming && dpl > rpl {
                return gp("conforming code segment with DPL > RPL");
            }
            if !conforming && dpl != rpl {
                return gp("non-conforming code segment with DPL != RPL");
            }
            let ld = lo >> 53 & 1 != 0 && lo >> 54 & 1 != 0;
            if !present {
                return Pred { accept: false, vecs: if ld { &[11, 13] } else { &[11] }, why: "code segment not present" };
            }
            if ld {
                return gp("code segment with L and D both set");
            }
            ok()
        }
        Target::Ss => {
            if rpl != cpl || !(data && typ & 2 != 0) || dpl != cpl {
                return gp("SS needs a writable data segment with RPL = DPL = CPL");
            }
            if !present {
                return Pred { accept: false, vecs: &[12], why: "stack segment not present" };
            }
            ok()
        }
        _ => {
            if !(data || (code && typ & 2 != 0)) {
                return gp("neither a data nor a readable code segment");
            }
            if !conforming && (rpl > dpl || cpl > dpl) {
                return gp("DPL < max(CPL, RPL)");
            }
            if !present {
                return Pred { accept: false, vecs: &[11], why: "segment not present" };
            }
            ok()
        }
    }
}

/// The bit the CPU sets in the descriptor on a successful load (0 = none)
pub(crate) fn cpu_writeback(t: Target, sel: u16) -> u64 {
    if sel & !3 == 0 {
        0
    } else if t == Target::Tr {
        2 << 40
    } else {
        1 << 40
    }
}

/// One call of the crate's selector-consuming function; `mon` = intercept in monitor mode (needed
/// whenever the selector could be loaded natively by a ring 3 process, i.e. index < 16).
pub(crate) fn drive(t: Target, sel: SegmentSelector, mon: bool) -> Result<(), String> {
    macro_rules! go {
        ($e:expr) => {
            sut_call(t.call(), || {
                if mon {
                    monitor(|| unsafe { $e })
                } else {
                    unsafe { $e }
                }
            })
        };
    }
    match t {
        Target::Es => go!(ES::set_reg(sel)),
        Target::Cs => go!(CS::set_reg(sel)),
        Target::Ss => go!(SS::set_reg(sel)),
        Target::Ds => go!(DS::set_reg(sel)),
        Target::Fs => go!(FS::set_reg(sel)),
        Target::Gs => go!(GS::set_reg(sel)),
        Target::Tr => go!(load_tss(sel)),
    }
}

/// The trace of one selector load must be exactly the one instruction for that register with the
/// selector as operand, optionally followed by the CPU's refusal.  Ok(Some((vector, reason))) = refused.
pub(crate) fn use_trace(t: Target, sel: u16, trace: &[Ev]) -> Result<Option<(u8, String)>, String> {
    let mut fault = None;
    let mut insns = vec![];
    for e in trace {
        match e {
            Ev::Fault { vec, why } => {
                if fault.is_some() {
                    return Err(format!("more than one refusal: {trace:x?}"));
                }
                fault = Some((*vec, why.clone()));
            }
            e => insns.push(e),
        }
    }
    let good = insns.len() == 1
        && match (t, insns[0]) {
            (Target::Tr, Ev::Ltr { sel: s }) => *s == sel,
            (Target::Cs, Ev::Retfq { cs, .. }) => *cs as u16 == sel,
            (Target::Tr, _) | (Target::Cs, _) => false,
            (_, Ev::WriteSreg { sreg, val }) => *sreg == t as u8 && *val == sel,
            _ => false,
        };
    if !good {
        let want = match t {
            Target::Tr => format!("ltr with selector {sel:#x}"),
            Target::Cs => format!("a far return (retfq) to selector {sel:#x}"),
            _ => format!("mov {}, {sel:#x}", NAMES[t as usize]),
        };
        return Err(format!("expected exactly {want}, the CPU saw {insns:x?}"));
    }
    Ok(fault)
}

// ---- scenario ----------------------------------------------------------------------------------

#[derive(Clone, Copy)]
struct SelInfo {
    sel: SegmentSelector,
    slot: usize,
    nwords: usize,
}

struct Model {
    max: usize,
    /// slot 0 is the null descriptor
    slots: Vec<u64>,
    sels: Vec<SelInfo>,
    /// table address the crate handed to the CPU at the first lgdt of this table object
    base: Option<u64>,
    /// number of slots covered by the limit currently in the simulated GDTR
    loaded_len: Option<usize>,
}

impl Model {
    fn gdtr_limit(&self) -> u16 {
        self.loaded_len.map(|l| (8 * l - 1) as u16).unwrap_or(0)
    }
}

unsafe fn peek(addr: u64) -> u64 {
    (addr as *const u64).read_volatile()
}

fn snapshot(t: &dyn Tbl) -> Vec<u64> {
    let (a, n) = t.span();
    (0..n as u64 / 8).map(|i| unsafe { peek(a + 8 * i) }).collect()
}

fn first_diff(a: &[u64], b: &[u64]) -> Option<usize> {
    (0..a.len().max(b.len())).find(|&i| a.get(i) != b.get(i))
}

/// The standing part of the property: entries(), limit() and the raw table memory agree with the model.
fn check_all(t: &dyn Tbl, m: &Model, step: usize) -> Option<Violation> {
    let len = m.slots.len();
    if len > m.max {
        return Some(viol(P, "capacity", step, format!("the table holds {len} slots, its capacity is {}", m.max)));
    }
    let got = t.raw_entries();
    if got != m.slots {
        let i = first_diff(&got, &m.slots).unwrap_or(0);
        return Some(viol(P, "entries", step, format!("entries() has {} slot(s), expected {len} (null descriptor + appended descriptors in order); first difference at slot {i}: entries() {:x?}, expected {:x?}", got.len(), got.get(i), m.slots.get(i))));
    }
    let lim = t.limit();
    if lim as usize != 8 * len - 1 {
        return Some(viol(P, "limit", step, format!("limit() = {lim:#x} with {len} used slot(s), expected 8*{len}-1 = {:#x}", 8 * len - 1)));
    }
    if let Some(base) = m.base {
        for (i, want) in m.slots.iter().enumerate() {
            let v = unsafe { peek(base + 8 * i as u64) };
            if v != *want {
                return Some(viol(P, "table-memory", step, format!("slot {i} of the table memory the CPU was given holds {v:#x}, expected {want:#x}")));
            }
        }
    }
    None
}

fn desc_of(s: &Value) -> Descriptor {
    match s["kind"].as_str().unwrap_or("user") {
        "sys" => Descriptor::SystemSegment(s["lo"].as_u64().unwrap_or(0), s["hi"].as_u64().unwrap_or(0)),
        "named" => named(s["which"].as_u64().unwrap_or(0)),
        "tss" => unsafe { Descriptor::tss_segment_unchecked(s["ptr"].as_u64().unwrap_or(0) as *const TaskStateSegment) },
        _ => Descriptor::UserSegment(s["lo"].as_u64().unwrap_or(0)),
    }
}

/// seeded descriptor stream of a `fill` step
fn fill_desc(rng: &mut Rng, sys_pct: u64) -> Descriptor {
    if rng.chance(sys_pct) {
        Descriptor::SystemSegment(compose(rng, Some(false)), if rng.chance(70) { rng.next() & 0xffff_ffff } else { rng.next() })
    } else if rng.chance(30) {
        Descriptor::UserSegment(rng.next())
    } else {
        Descriptor::UserSegment(compose(rng, Some(true)))
    }
}

/// a descriptor low quadword with plausible attribute bits (so that loads are often accepted)
fn compose(rng: &mut Rng, user: Option<bool>) -> u64 {
    let s = user.unwrap_or_else(|| rng.chance(80));
    let typ = if s {
        rng.below(16)
    } else if rng.chance(75) {
        9
    } else {
        rng.below(16)
    };
    let dpl = *rng.pick(&[0u64, 0, 0, 3, 3, 1, 2]);
    let p = rng.chance(88) as u64;
    let (avl, l, db, g) = (rng.below(2), rng.below(2), rng.chance(35) as u64, rng.below(2));
    let base = if s || rng.chance(50) { rng.next() } else { 0 };
    let limit = rng.next();
    (limit & 0xffff) | ((base & 0xff_ffff) << 16) | (typ << 40) | ((s as u64) << 44) | (dpl << 45) | (p << 47) | (((limit >> 16) & 0xf) << 48) | (avl << 52) | (l << 53) | (db << 54) | (g << 55) | (((base >> 24) & 0xff) << 56)
}

fn raw_gen(len: u64, seed: u64, first: u64) -> Vec<u64> {
    let mut r = Rng::new(seed);
    // null entries occur inside and at the end of real tables (upper half of a system descriptor
    // with a base below 4 GiB, reserved slots): they are entries like any other
    let zero_tail = r.chance(25);
    (0..len)
        .map(|i| {
            if i == 0 {
                first
            } else if (zero_tail && i + 1 == len) || r.chance(10) {
                0
            } else if r.chance(50) {
                compose(&mut r, None)
            } else {
                r.next()
            }
        })
        .collect()
}

fn tss_ptr(rng: &mut Rng) -> u64 {
    match rng.below(6) {
        0 => rng.next() & 0x7fff_ffff_ffff,
        1 => rng.next() | 0xffff_8000_0000_0000,
        2 => 1 << rng.below(64),
        3 => !(1 << rng.below(64)),
        4 => rng.next() & 0xffff_ffff,
        _ => rng.next(),
    }
}

struct Gen {
    max: u64,
    len: u64,
    /// (low quadword, is a system descriptor) of every selector the run will have
    sels: Vec<(u64, bool)>,
    loaded: bool,
    steps: Vec<Value>,
}

impl Gen {
    fn append(&mut self, rng: &mut Rng) {
        let sys_w = if self.max <= 3 { 4 } else { 3 };
        let (step, lo, sys) = match rng.weighted(&[3, 5, 3, 1, 1, sys_w, 2]) {
            0 => {
                let v = rng.next();
                (json!({"op": "append", "kind": "user", "lo": v}), v, false)
            }
            1 => {
                let v = compose(rng, Some(true));
                (json!({"op": "append", "kind": "user", "lo": v}), v, false)
            }
            2 => {
                let w = rng.below(10);
                let v = words(&named(w))[0];
                (json!({"op": "append", "kind": "named", "which": w}), v, false)
            }
            3 => {
                let v = 1u64 << rng.below(64);
                (json!({"op": "append", "kind": "user", "lo": v}), v, false)
            }
            4 => {
                let v = *rng.pick(&[0u64, u64::MAX, 0xffff_0000_0000_0000, 0x0000_6000_0000_0000]);
                (json!({"op": "append", "kind": "user", "lo": v}), v, false)
            }
            5 => {
                let ptr = tss_ptr(rng);
                // DPL 0, present, type 9: only the class matters to the generator
                (json!({"op": "append", "kind": "tss", "ptr": ptr}), 0x0000_8900_0000_0067, true)
            }
            _ => {
                let lo = if rng.chance(80) { compose(rng, Some(false)) } else { rng.next() };
                let hi = match rng.below(4) {
                    0 => rng.next(),
                    1 => (rng.next() & 0xffff_ffff) | (1 << rng.range(32, 63)),
                    _ => rng.next() & 0x7fff,
                };
                (json!({"op": "append", "kind": "sys", "lo": lo, "hi": hi}), lo, true)
            }
        };
        let need = if sys { 2 } else { 1 };
        if self.len + need <= self.max {
            self.len += need;
            self.sels.push((lo, sys));
            self.loaded = false;
        }
        self.steps.push(step);
    }

    fn load(&mut self, rng: &mut Rng) {
        self.steps.push(json!({"op": "load", "how": if rng.chance(50) { "static" } else { "unsafe" }}));
        self.loaded = true;
    }

    fn use_sel(&mut self, rng: &mut Rng) {
        if !self.loaded && rng.chance(85) {
            self.load(rng);
        }
        if self.sels.is_empty() || rng.chance(6) {
            let reg = *rng.pick(&NAMES);
            self.steps.push(json!({"op": "use", "reg": reg, "sel": Value::Null, "cpl": *rng.pick(&[0u64, 0, 3, 1]), "monitor": true}));
            return;
        }
        // prefer recently appended descriptors (in large tables the early ones are padding)
        let k = if rng.chance(60) { self.sels.len() as u64 - 1 - rng.below((self.sels.len() as u64).min(4)) } else { rng.below(self.sels.len() as u64) };
        let (lo, sys) = self.sels[k as usize];
        let typ = (lo >> 40) & 0xf;
        let reg = if rng.chance(25) {
            *rng.pick(&NAMES)
        } else if sys {
            "tr"
        } else if lo >> 44 & 1 != 0 && typ & 8 != 0 {
            *rng.pick(&["cs", "cs", "cs", "ds", "gs"])
        } else {
            *rng.pick(&["ss", "ss", "ds", "es", "fs", "gs"])
        };
        let dpl = (lo >> 45) & 3;
        let cpl = if reg == "tr" && rng.chance(85) {
            0
        } else if rng.chance(70) {
            dpl
        } else {
            rng.below(4)
        };
        self.steps.push(json!({"op": "use", "reg": reg, "sel": k, "cpl": cpl, "monitor": rng.chance(30)}));
    }

    fn from_raw(&mut self, rng: &mut Rng) {
        let max = self.max;
        let first = if rng.chance(80) { 0 } else { *rng.pick(&[1u64, 1 << 63, 0x0000_8000_0000_0000]) };
        let len = match rng.below(8) {
            0 => 0,
            1 => max + 1,
            2 => max,
            3 => max - 1,
            4 => max.saturating_sub(2),
            _ => rng.range(1, max.min(12)),
        };
        if len <= 12 {
            let mut r2 = rng.fork();
            let entries = raw_gen(len, r2.next(), first);
            self.steps.push(json!({"op": "from_raw", "entries": entries}));
        } else {
            self.steps.push(json!({"op": "from_raw_gen", "len": len, "seed": rng.next(), "first": first}));
        }
        if len > 0 && len <= max && first == 0 {
            self.len = len;
            self.sels.clear();
            self.loaded = false;
        }
    }

    fn fill(&mut self, rng: &mut Rng, n: u64) {
        let sys_pct = *rng.pick(&[0u64, 10, 30]);
        let seed = rng.next();
        self.steps.push(json!({"op": "fill", "n": n, "seed": seed, "sys_pct": sys_pct}));
        // mirror of the run-side loop (classes only)
        let mut r = Rng::new(seed);
        let mut rejected = 0;
        for _ in 0..n {
            let d = fill_desc(&mut r, sys_pct);
            let w = words(&d);
            if self.len + w.len() as u64 <= self.max {
                self.len += w.len() as u64;
                self.sels.push((w[0], w.len() == 2));
                self.loaded = false;
            } else {
                rejected += 1;
                if rejected >= 3 {
                    break;
                }
            }
        }
    }
}

pub fn gen(seed: u64) -> Replay {
    let mut rng = Rng::new(seed ^ 0xc14);
    let max = *rng.pick(&[1u64, 2, 3, 8, 9, 8192]);
    let ctor = if max == 8 { *rng.pick(&["empty", "new", "default"]) } else { "empty" };
    let mut g = Gen { max, len: 1, sels: vec![], loaded: false, steps: vec![] };
    if rng.chance(20) {
        g.from_raw(&mut rng);
    }
    if max == 8192 {
        match rng.below(8) {
            0 => {
                // close to the architectural maximum
                let len = rng.range(8186, 8192);
                g.steps.push(json!({"op": "from_raw_gen", "len": len, "seed": rng.next(), "first": 0}));
                g.len = len;
                g.sels.clear();
            }
            1 => {
                // (wrapping on purpose: both build flavours must generate the same steps)
                let n = 8192u64.wrapping_sub(g.len).wrapping_sub(rng.below(6));
                g.fill(&mut rng, n);
            }
            2..=5 => {
                // padding: later selectors have index >= 16 and trap natively
                let n = rng.range(15, 40);
                g.fill(&mut rng, n);
            }
            _ => {}
        }
    }
    let n = rng.range(3, 36);
    for _ in 0..n {
        match rng.weighted(&[10, 3, 9, 1, 1, 1]) {
            0 => g.append(&mut rng),
            1 => g.load(&mut rng),
            2 => g.use_sel(&mut rng),
            3 => g.from_raw(&mut rng),
            4 => {
                if rng.chance(50) {
                    g.steps.push(json!({"op": "clone"}));
                } else {
                    g.steps.push(json!({"op": "clone_from", "fill": rng.below(7)}));
                }
                g.loaded = false;
            }
            _ => {
                let n = rng.range(1, 6);
                g.fill(&mut rng, n);
            }
        }
    }
    if rng.chance(70) {
        g.load(&mut rng);
    }
    Replay { property: "C14".into(), simulator: "cpusim".into(), seed, config: json!({"max": max, "ctor": ctor, "shift8": (seed >> 7) & 1 == 1}), steps: g.steps, violation: None, minimised_from_steps: None }
}

/// one `append`, checked against the model; Ok(true) = appended, Ok(false) = rejected as expected
fn do_append(t: &mut dyn Tbl, m: &mut Model, d: Descriptor, step: usize, st: &mut Stats, what: &str) -> Result<bool, Violation> {
    let w = words(&d);
    let len = m.slots.len();
    let fits = len + w.len() <= m.max;
    let before = if fits { vec![] } else { snapshot(t) };
    let r = sut_call("append", || t.append(d));
    st.calls += 1;
    let dpl = (w[0] >> 45) & 3;
    st.distinct_key(&[0, m.max as u64, w.len() as u64, fits as u64, (len as u64).min(10), dpl, (m.max - len).min(3) as u64]);
    match (fits, r) {
        (true, Err(p)) => Err(viol(P, "append-panic", step, format!("append of {what} {w:x?} panicked ({p}) although {len} of {} slots are used and it needs {}", m.max, w.len()))),
        (false, Ok(s)) => Err(viol(P, "append-overflow", step, format!("append of {what} {w:x?} needs {} slot(s) but only {} of {} are free; it returned selector {:#x} instead of panicking", w.len(), m.max - len, m.max, s.0))),
        (false, Err(_)) => {
            st.count(if w.len() == 2 { "append_rejected_system" } else { "append_rejected_user" });
            if m.max == 8192 {
                st.count("append_rejected_at_8192");
            }
            let after = snapshot(t);
            if let Some(i) = first_diff(&before, &after) {
                return Err(viol(P, "failed-append-changed-table", step, format!("append of {what} {w:x?} panicked for lack of space ({len} of {} slots used) but changed the table object: quadword {i} of the object was {:#x}, is {:#x}", m.max, before[i], after[i])));
            }
            Ok(false)
        }
        (true, Ok(s)) => {
            let sel = s.0;
            if sel >> 3 != len as u16 || sel & 4 != 0 || (sel & 3) as u64 != dpl {
                return Err(viol(P, "selector", step, format!("append of {what} {w:x?} (DPL {dpl}) into first free slot {len} returned selector {sel:#x} = index {}, TI {}, RPL {}; expected index {len}, TI 0 (GDT), RPL {dpl}", sel >> 3, sel >> 2 & 1, sel & 3)));
            }
            // the selector's own accessors describe the same fields
            if s.index() != len as u16 || s.rpl() as u64 != dpl {
                return Err(viol(P, "selector", step, format!("append of {what} {w:x?} (DPL {dpl}) into first free slot {len} returned selector {sel:#x} whose accessors report index {} and RPL {:?}; expected index {len}, RPL {dpl}", s.index(), s.rpl())));
            }
            m.sels.push(SelInfo { sel: s, slot: len, nwords: w.len() });
            m.slots.extend_from_slice(&w);
            Ok(true)
        }
    }
}

fn replace_table(t: &mut Box<dyn Tbl>, new: Box<dyn Tbl>, m: &mut Model) {
    // the old object goes away: a GDTR pointing at it would dangle
    world().cpu.gdtr = DtReg::default();
    m.base = None;
    m.loaded_len = None;
    *t = new;
}

pub fn run(rp: &Replay, st: &mut Stats) -> Option<Violation> {
    quiet_panics();
    let w = world();
    w.cpu = Cpu::default();
    w.mon_budget = 5_000;
    let max = rp.config["max"].as_u64().unwrap_or(8) as usize;
    if !supported(max) {
        eprintln!("HARNESS-ERROR: C14 has no monomorphisation for MAX = {max}");
        std::process::exit(2);
    }
    let ctor = rp.config["ctor"].as_str().unwrap_or("empty").to_string();
    SHIFT8.store(rp.config["shift8"].as_bool().unwrap_or(false), core::sync::atomic::Ordering::Relaxed);
    let made = sut_call("new", || match (max, ctor.as_str()) {
        (8, "new") => place(GlobalDescriptorTable::new()),
        (8, "default") => place(<GlobalDescriptorTable as Default>::default()),
        _ => make(max, None),
    });
    st.calls += 1;
    let mut tbl = match made {
        Ok(t) => t,
        Err(p) => return Some(viol(P, "constructor-panic", 0, format!("creating an empty table with capacity {max} panicked: {p}"))),
    };
    let mut m = Model { max, slots: vec![0], sels: vec![], base: None, loaded_len: None };
    if let Some(v) = check_all(&*tbl, &m, 0) {
        return Some(v);
    }

    for (i, s) in rp.steps.iter().enumerate() {
        st.steps += 1;
        match s["op"].as_str().unwrap_or("") {
            "append" => {
                let d = desc_of(s);
                let what = match s["kind"].as_str().unwrap_or("user") {
                    "named" => NAMED[(s["which"].as_u64().unwrap_or(0) % 10) as usize].to_string(),
                    "tss" => format!("tss_segment_unchecked({:#x})", s["ptr"].as_u64().unwrap_or(0)),
                    "sys" => "SystemSegment".to_string(),
                    _ => "UserSegment".to_string(),
                };
                if let Err(v) = do_append(&mut *tbl, &mut m, d, i, st, &what) {
                    return Some(v);
                }
            }
            "fill" => {
                let n = s["n"].as_u64().unwrap_or(0).min(8200);
                let sys_pct = s["sys_pct"].as_u64().unwrap_or(0);
                let mut r = Rng::new(s["seed"].as_u64().unwrap_or(0));
                let mut rejected = 0;
                for _ in 0..n {
                    let d = fill_desc(&mut r, sys_pct);
                    match do_append(&mut *tbl, &mut m, d, i, st, "fill descriptor") {
                        Err(v) => return Some(v),
                        Ok(true) => {}
                        Ok(false) => {
                            rejected += 1;
                            if rejected >= 3 {
                                break;
                            }
                        }
                    }
                }
            }
            "from_raw" | "from_raw_gen" => {
                let raw: Vec<u64> = if s["op"] == "from_raw" {
                    s["entries"].as_array().map(|a| a.iter().map(|x| x.as_u64().unwrap_or(0)).collect()).unwrap_or_default()
                } else {
                    raw_gen(s["len"].as_u64().unwrap_or(1).min(8200), s["seed"].as_u64().unwrap_or(0), s["first"].as_u64().unwrap_or(0))
                };
                let valid = !raw.is_empty() && raw[0] == 0 && raw.len() <= max;
                let r = sut_call("from_raw_entries", || make(max, Some(&raw)));
                st.calls += 1;
                st.distinct_key(&[3, max as u64, raw.is_empty() as u64, (raw.first() == Some(&0)) as u64, (raw.len() > max) as u64, (raw.len() == max) as u64]);
                let head: Vec<u64> = raw.iter().cloned().take(4).collect();
                match (valid, r) {
                    (true, Err(p)) => return Some(viol(P, "from_raw-panic", i, format!("from_raw_entries with {} entries (first entries {head:x?}) for capacity {max} panicked: {p}", raw.len()))),
                    (false, Ok(t)) => return Some(viol(P, "from_raw-accepted", i, format!("from_raw_entries accepted a slice of {} entries (first entries {head:x?}) for capacity {max}; the documentation promises a panic for an empty slice, a non-zero first entry or more than MAX entries; the table then has {} entries", raw.len(), t.raw_entries().len()))),
                    (false, Err(_)) => st.count("from_raw_rejected"),
                    (true, Ok(t)) => {
                        replace_table(&mut tbl, t, &mut m);
                        m.slots = raw;
                        m.sels.clear();
                    }
                }
            }
            "clone_from" => {
                let fill = s["fill"].as_u64().unwrap_or(0).min(8);
                let r = sut_call("clone_from", || tbl.dup_over(fill));
                st.calls += 1;
                st.count("clone_from_into_a_table_with_other_contents");
                match r {
                    Err(p) => return Some(viol(P, "clone-panic", i, format!("clone_from of a table with {} slots into one with {} panicked: {p}", m.slots.len(), 1 + fill))),
                    Ok(t) => replace_table(&mut tbl, t, &mut m),
                }
            }
            "clone" => {
                let r = sut_call("clone", || tbl.dup());
                st.calls += 1;
                match r {
                    Err(p) => return Some(viol(P, "clone-panic", i, format!("cloning a table with {} slots panicked: {p}", m.slots.len()))),
                    Ok(t) => replace_table(&mut tbl, t, &mut m),
                }
            }
            "load" => {
                let as_static = s["how"] == "static";
                let r = sut_call("load", || monitor(|| tbl.load(as_static)));
                st.calls += 1;
                if let Err(p) = r {
                    return Some(viol(P, "load-panic", i, format!("load panicked: {p}")));
                }
                let trace = world().cpu.trace.clone();
                let (base, limit) = match trace.as_slice() {
                    [Ev::Lgdt { base, limit, .. }] => (*base, *limit),
                    _ => return Some(viol(P, "load-instruction", i, format!("load of the table must execute exactly one lgdt; the CPU saw {} event(s): {}", trace.len(), kinds(&trace)))),
                };
                let len = m.slots.len();
                if limit as usize != 8 * len - 1 {
                    // a limit made of address bits (wrong operand layout) would differ from process to process
                    let (obj, _) = tbl.span();
                    let addr_bits = (0..=48).step_by(8).any(|sh| (base >> sh) as u16 == limit || (obj >> sh) as u16 == limit);
                    let shown = if addr_bits { "a limit made of bits of the table address".to_string() } else { format!("limit {limit:#x}") };
                    return Some(viol(P, "lgdt-limit", i, format!("lgdt was given {shown} for a table of {len} used slot(s), expected 8*{len}-1 = {:#x}", 8 * len - 1)));
                }
                let (obj, size) = tbl.span();
                if base < obj || base % 8 != 0 || base + 8 * max as u64 > obj + size as u64 {
                    return Some(viol(P, "lgdt-base", i, format!("lgdt was given a base address that is not an 8-aligned array of {max} slots inside the table object (object size {size:#x}, base at offset {:#x} from the object)", base.wrapping_sub(obj) as i64)));
                }
                if let Some(b0) = m.base {
                    if b0 != base {
                        return Some(viol(P, "lgdt-base", i, format!("two loads of the same (unmoved) table gave the CPU different base addresses (offsets {:#x} and {:#x} from the object)", b0.wrapping_sub(obj) as i64, base.wrapping_sub(obj) as i64)));
                    }
                }
                if tbl.entries_addr() != base {
                    return Some(viol(P, "lgdt-base", i, format!("entries() exposes memory at offset {:#x} of the object, the CPU was given offset {:#x}", tbl.entries_addr().wrapping_sub(obj) as i64, base.wrapping_sub(obj) as i64)));
                }
                let g = world().cpu.gdtr;
                if g.base != base || g.limit != limit {
                    eprintln!("HARNESS-ERROR: GDTR does not hold the lgdt operand");
                    std::process::exit(2);
                }
                m.base = Some(base);
                m.loaded_len = Some(len);
                // the CPU resolves every selector handed out so far
                for (k, si) in m.sels.iter().enumerate() {
                    let sel = si.sel.0;
                    let off = (sel & !7) as u64;
                    if sel & 4 != 0 || off + 8 * si.nwords as u64 - 1 > g.limit as u64 {
                        return Some(viol(P, "selector-resolve", i, format!("selector {sel:#x} (returned by append number {k}, {} slot(s) from slot {}) does not resolve inside the loaded GDT (TI {}, limit {:#x})", si.nwords, si.slot, sel >> 2 & 1, g.limit)));
                    }
                    for j in 0..si.nwords {
                        let v = unsafe { peek(g.base + off + 8 * j as u64) };
                        let want = m.slots[si.slot + j];
                        if off != 8 * si.slot as u64 || v != want {
                            return Some(viol(P, "selector-resolve", i, format!("selector {sel:#x} (returned by append number {k}) resolves to GDTR.base+{:#x} holding {v:#x}; the descriptor given to that append has {want:#x} as quadword {j} (model slot {})", off + 8 * j as u64, si.slot + j)));
                        }
                    }
                }
                st.distinct_key(&[2, max as u64, as_static as u64, (len as u64).min(10), (len == max) as u64]);
            }
            "use" => {
                let t = Target::parse(s["reg"].as_str().unwrap_or("ds"));
                let cpl = (s["cpl"].as_u64().unwrap_or(0) & 3) as u8;
                let (selv, info) = match s["sel"].as_u64() {
                    Some(k) if !m.sels.is_empty() => {
                        let si = m.sels[(k % m.sels.len() as u64) as usize];
                        (si.sel, Some(si))
                    }
                    _ => (SegmentSelector::NULL, None),
                };
                let sel = selv.0;
                if info.is_none() && sel != 0 {
                    return Some(viol(P, "null-selector", i, format!("SegmentSelector::NULL is {sel:#x}, expected 0 (index 0, GDT, RPL 0)")));
                }
                // ltr always traps in ring 3; segment-register loads of selectors a Linux process can
                // load natively (index < 16) have to be intercepted before they execute
                let mon = s["monitor"].as_bool().unwrap_or(true) || (t != Target::Tr && sel >> 3 < 16);
                world().cpu.cpl = cpl;
                let before = world().cpu.clone();
                let limit = m.gdtr_limit();
                let pred = predict(t, sel, cpl, limit, &|k| m.slots[k]);
                let r = drive(t, selv, mon);
                st.calls += 1;
                let call = t.call();
                if let Err(p) = r {
                    return Some(viol(P, "use-panic", i, format!("{call}({sel:#x}) panicked: {p}")));
                }
                if world().mon_overrun {
                    return Some(viol(P, "no-progress", i, format!("{call}({sel:#x}) single-stepped more than {} instructions", world().mon_budget)));
                }
                let trace = world().cpu.trace.clone();
                let fault = match use_trace(t, sel, &trace) {
                    Ok(f) => f,
                    Err(e) => return Some(viol(P, "use-instruction", i, format!("{call}({sel:#x}): {e}"))),
                };
                let idx = (sel >> 3) as usize;
                let ctx = match info {
                    Some(si) => format!("selector {sel:#x} returned for descriptor {:x?} in slot {} at CPL {cpl}, GDT limit {limit:#x}", &m.slots[si.slot..si.slot + si.nwords], si.slot),
                    None => format!("the null selector at CPL {cpl}"),
                };
                match (&fault, pred.accept) {
                    (Some((v, why)), true) => return Some(viol(P, "use-refused", i, format!("{call} with {ctx}: the architecture accepts this load, the CPU working from the table in memory refused it with vector {v}: {why}"))),
                    (None, false) => return Some(viol(P, "use-accepted", i, format!("{call} with {ctx}: the architecture refuses this load ({}), the CPU working from the table in memory accepted it", pred.why))),
                    (Some((v, why)), false) if !pred.vecs.contains(v) => return Some(viol(P, "use-refused-differently", i, format!("{call} with {ctx}: expected a refusal with vector {:?} ({}), the CPU raised vector {v}: {why}", pred.vecs, pred.why))),
                    _ => {}
                }
                let c = &world().cpu;
                if pred.accept {
                    let bit = cpu_writeback(t, sel);
                    if bit != 0 {
                        if m.slots[idx] & bit == 0 {
                            st.count(if t == Target::Tr { "busy_bit_set_by_cpu" } else { "accessed_bit_set_by_cpu" });
                        }
                        m.slots[idx] |= bit;
                    }
                    let lo = m.slots[idx];
                    let good = match t {
                        Target::Tr => {
                            let hi = m.slots[idx + 1];
                            let base = ((lo >> 16) & 0xff_ffff) | (((lo >> 56) & 0xff) << 24) | ((hi & 0xffff_ffff) << 32);
                            c.tr.sel == sel && c.tr.base == base && c.tr.present && c.tr.typ == 0xb && c.tr.dpl as u64 == (lo >> 45) & 3
                        }
                        Target::Cs => c.sel[1] == sel && c.cpl == (sel & 3) as u8,
                        Target::Fs if sel & !3 != 0 => c.sel[4] == sel && c.fs_base == (((lo >> 16) & 0xff_ffff) | (((lo >> 56) & 0xff) << 24)),
                        Target::Gs if sel & !3 != 0 => c.sel[5] == sel && c.gs_base == (((lo >> 16) & 0xff_ffff) | (((lo >> 56) & 0xff) << 24)),
                        _ => c.sel[t as usize] == sel,
                    };
                    if !good {
                        return Some(viol(P, "use-register-state", i, format!("{call} with {ctx} was accepted but the register state does not reflect the descriptor: selectors {:x?}, TR {:x?}, CPL {}, fs/gs base {:#x}/{:#x}", c.sel, (c.tr.sel, c.tr.base, c.tr.limit, c.tr.typ), c.cpl, c.fs_base, c.gs_base)));
                    }
                } else if c.sel != before.sel || c.tr != before.tr || c.cpl != before.cpl {
                    eprintln!("HARNESS-ERROR: a refused load changed the simulated register file");
                    std::process::exit(2);
                }
                let lo = if idx < m.slots.len() { m.slots[idx] } else { 0 };
                let class = if sel & !3 == 0 {
                    0
                } else if lo >> 44 & 1 == 0 {
                    1
                } else if lo >> 43 & 1 != 0 {
                    2
                } else {
                    3
                };
                st.count(&format!("use_{}_{}", NAMES[t as usize], if pred.accept { "accepted" } else { "refused" }));
                st.count(if mon { "use_intercepted_in_monitor_mode" } else { "use_trapped_natively" });
                st.distinct_key(&[1, t as u64, pred.accept as u64, pred.vecs.first().cloned().unwrap_or(0) as u64, cpl as u64, (sel & 3) as u64, class, mon as u64, (m.loaded_len.is_some()) as u64, (m.loaded_len.unwrap_or(0) < m.slots.len()) as u64]);
            }
            _ => {}
        }
        // the accessed / busy bits the CPU wrote are part of the expected contents from now on
        if let Some(v) = check_all(&*tbl, &m, i) {
            return Some(v);
        }
    }
    None
}

fn kinds(trace: &[Ev]) -> String {
    // event names only: lgdt operands are host addresses
    let v: Vec<String> = trace
        .iter()
        .map(|e| {
            let s = format!("{e:?}");
            s.split(|c: char| !c.is_alphanumeric()).next().unwrap_or("").to_string()
        })
        .collect();
    format!("{v:?}")
}

pub fn simplify(rp: &Replay) -> Vec<Replay> {
    let mut out = vec![];
    for (i, s) in rp.steps.iter().enumerate() {
        match s["op"].as_str().unwrap_or("") {
            "fill" => {
                let n = s["n"].as_u64().unwrap_or(0);
                for k in [n / 2, n.saturating_sub(1)] {
                    if k < n {
                        let mut c = rp.clone();
                        c.steps[i]["n"] = json!(k);
                        out.push(c);
                    }
                }
            }
            "from_raw_gen" => {
                let n = s["len"].as_u64().unwrap_or(0);
                if n > 1 {
                    let mut c = rp.clone();
                    c.steps[i]["len"] = json!(n / 2);
                    out.push(c);
                }
            }
            "use" if s["monitor"] == json!(false) => {
                let mut c = rp.clone();
                c.steps[i]["monitor"] = json!(true);
                out.push(c);
            }
            _ => {}
        }
    }
    out
}
