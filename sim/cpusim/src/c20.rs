//! C20 — `RecursivePageTable::new` accepts exactly recursive + active tables and then uses the
//! common index; the table addresses it computes are the recursive index repeated 3/2/1 times
//! followed by the page's upper indices, sign-extended.
//!
//! (a) constructor.  Environment: a level-4 table at a *real* recursive user-space address
//! (R,R,R,R), R in 1..=160 (these P4 slots are free in this process), backed by an anonymous page
//! the harness maps there; the simulated CR3 behind the crate's real trapped `mov r, cr3`.
//! Near-recursive addresses (one index off, two values mixed, upper half) are either left unmapped —
//! the constructor must reject them from the address alone, any access to the table dies with a
//! fatal fault — or (lower half only) backed by a table whose every slot looks active, so that a
//! missing index comparison shows up as a wrong `Ok`.
//! After an `Ok` the harness has laid out the level-3/2/1 tables of one probe page at the addresses
//! the hardware would resolve through slot R — (R,R,R,p4) (R,R,p4,p3) (R,p4,p3,p2) — and nowhere
//! else: `translate_page` of the probe page can only give the planted frame if the mapper uses R.
//!
//! (b) address arithmetic.  THIS PART IS INPUT SAMPLING OF A PURE FUNCTION THROUGH A HOOK
//! (`verif_table_pages`, cfg(x86_64_verif)), not simulation: a ring-3 process cannot back
//! recursive addresses with R >= 256 (kernel half), so the hook is the only way to reach the
//! mapper's address computation for all 512 indices without a kernel.  The hook returns the
//! private `p3_page/p2_page/p1_page` results unchanged; the oracle is plain bit arithmetic.

use serde_json::{json, Value};
use usim::cpu::{Cpu, Ev};
use usim::driver::{viol, Replay, Stats, Violation};
use usim::prng::Rng;
use usim::world::{sut_call, world};
use x86_64::structures::paging::mapper::{verif_table_pages, InvalidPageTable, RecursivePageTable, TranslateError};
use x86_64::structures::paging::{Mapper, Page, PageTable, PageTableIndex, Size4KiB};
use x86_64::VirtAddr;

const P: &[&str] = &["C20"];
const ADDR: u64 = 0x000f_ffff_ffff_f000;
const PRESENT: u64 = 1;
/// P4 slots of this process that are known to be empty (DESIGN.md §1.1, measured)
const R_MIN: u64 = 1;
const R_MAX: u64 = 160;

fn sign_extend(a: u64) -> u64 {
    let a = a & 0x0000_ffff_ffff_ffff;
    if a >> 47 & 1 != 0 {
        a | 0xffff_0000_0000_0000
    } else {
        a
    }
}

fn compose(i4: u64, i3: u64, i2: u64, i1: u64) -> u64 {
    sign_extend((i4 & 511) << 39 | (i3 & 511) << 30 | (i2 & 511) << 21 | (i1 & 511) << 12)
}

fn indices(a: u64) -> [u64; 4] {
    [a >> 39 & 511, a >> 30 & 511, a >> 21 & 511, a >> 12 & 511]
}

// ---- generator -------------------------------------------------------------------------------

fn gen_frame(rng: &mut Rng) -> u64 {
    (match rng.below(6) {
        // (physical frame 0 is a frame like any other: a root table may live there)
        0 => *rng.pick(&[0x1000u64, 0x1000, 0]),
        1 => 1 << rng.range(12, 51),
        2 => ADDR,
        3 => rng.below(1 << 20) << 12,
        _ => rng.next(),
    }) & ADDR
}

fn other_frame(rng: &mut Rng, f: u64) -> u64 {
    let g = gen_frame(rng);
    if g == f {
        f ^ 0x1000
    } else {
        g
    }
}

/// flag bits a level-4 entry may carry besides PRESENT.  Bit 7 is left out: it is reserved at
/// level 4 and whether such an entry "points to" a frame is not something the property decides.
fn gen_flags(rng: &mut Rng) -> u64 {
    const BITS: [u32; 23] = [1, 2, 3, 4, 5, 6, 8, 9, 10, 11, 52, 53, 54, 55, 56, 57, 58, 59, 60, 61, 62, 63, 1];
    let mut f = 0;
    for _ in 0..rng.range(1, 6) {
        f |= 1u64 << *rng.pick(&BITS);
    }
    if rng.chance(10) {
        f = !(ADDR | PRESENT | 1 << 7);
    }
    f
}

fn gen_ctor(rng: &mut Rng) -> Value {
    let f = gen_frame(rng);
    let slot = match rng.below(9) {
        0 | 1 | 2 => f | PRESENT | 2,
        3 => f | 2,
        4 => other_frame(rng, f) | PRESENT | 2,
        5 => 0,
        6 | 7 => f | PRESENT | gen_flags(rng),
        _ => (f ^ 1 << rng.range(12, 51)) | PRESENT | 2,
    };
    let cr3 = match rng.below(8) {
        0 | 1 | 2 => f,
        3 | 4 => f | rng.below(4096),
        5 => other_frame(rng, f),
        6 => f ^ 1 << rng.range(12, 51),
        _ => f | 0x18,
    };
    // one constructor call in six is for a recursive index of the kernel half (shadow pages)
    let r = if rng.chance(17) { *rng.pick(&[256u64, 257, 510, 511, 511, 384, 300, 448]) + 0 } else { rng.range(R_MIN, R_MAX) };
    let r = if r >= 256 && rng.chance(40) { rng.range(256, 511) } else { r };
    let mut idx = [r; 4];
    let mut mapped = true;
    if rng.chance(40) {
        // near-recursive forms
        let base = match rng.below(4) {
            0 => rng.range(256, 511),
            1 => rng.below(512),
            _ => r,
        };
        idx = [base; 4];
        match rng.below(4) {
            0 => {
                let k = rng.below(4) as usize;
                idx[k] = if rng.chance(50) {
                    (base + if rng.chance(50) { 1 } else { 511 }) % 512
                } else {
                    // one index differs in a single bit (all nine bit positions, 256 included)
                    base ^ (1 << rng.below(9))
                };
            }
            1 => {
                let k = rng.below(4) as usize;
                idx[k] = (base + rng.range(1, 511)) % 512;
            }
            2 => {
                // two values mixed over the four positions
                let s = (base + rng.range(1, 511)) % 512;
                let m = rng.range(1, 14);
                for (k, x) in idx.iter_mut().enumerate() {
                    if m >> k & 1 != 0 {
                        *x = s;
                    }
                }
            }
            _ => {
                // only the level-1 index differs (the form closest to the real thing)
                idx[3] = (base + rng.range(1, 511)) % 512;
            }
        }
        mapped = (R_MIN..=R_MAX).contains(&idx[0]) && rng.chance(50);
    }
    // probe page for the Ok case: any page whose level-4 index is not the recursive one
    let p4 = (r + rng.range(1, 511)) % 512;
    let probe = json!({"idx": [p4, rng.below(512), rng.below(512), rng.below(512)], "depth": rng.range(0, 4), "frame": gen_frame(rng)});
    let mut s = json!({"op": "ctor", "idx": idx, "mapped": mapped, "slot": slot, "cr3": cr3, "probe": probe});
    if rng.chance(50) {
        s["fill_slot"] = json!(true);
    }
    if rng.chance(35) {
        // other slots of the table that also look like a way to the root (a second, say read-only,
        // alias of the level-4 table; a copy of the candidate slot; an unrelated present entry):
        // the verdict depends on the slot the address goes through and on nothing else
        let n = rng.range(1, 3);
        let mut a = vec![];
        for _ in 0..n {
            let k = match rng.below(3) {
                0 => rng.below(r.max(1)),
                1 => (r + 1 + rng.below(511 - r.min(510))) % 512,
                _ => rng.below(512),
            };
            a.push(json!([k, rng.below(3), rng.below(8)]));
        }
        s["aliases"] = Value::Array(a);
    }
    if rng.chance(20) {
        // the address space is switched (from this root) in the same function, right before the
        // constructor is called
        s["switch_from"] = json!(if rng.chance(30) { slot & ADDR } else { other_frame(rng, f) } | (rng.below(4) << 3));
    }
    s
}

fn gen_arith(rng: &mut Rng) -> Value {
    let mut cases = vec![];
    for _ in 0..rng.range(1, 8) {
        let r = match rng.below(8) {
            0 => 0,
            1 => 511,
            2 => 255,
            3 => 256,
            _ => rng.below(512),
        };
        let page = match rng.below(8) {
            0 => 0,
            1 => 0xffff_ffff_ffff_f000,
            2 => 0x0000_7fff_ffff_f000,
            3 => 0xffff_8000_0000_0000,
            4 => compose(r, r, r, r),
            5 => compose(r, rng.below(512), r, rng.below(512)),
            _ => sign_extend(rng.next()) & !0xfff,
        };
        cases.push(json!([r, page]));
    }
    json!({"op": "arith", "cases": cases})
}

pub fn gen(seed: u64) -> Replay {
    let mut rng = Rng::new(seed ^ 0xc20);
    let n = rng.range(2, 24);
    let mut steps = vec![];
    for _ in 0..n {
        steps.push(if rng.chance(55) { gen_ctor(&mut rng) } else { gen_arith(&mut rng) });
    }
    Replay { property: "C20".into(), simulator: "cpusim".into(), seed, config: json!({}), steps, violation: None, minimised_from_steps: None }
}

// ---- harness-owned memory at fixed addresses -------------------------------------------------

/// Pages the harness provides at fixed addresses: a real anonymous page where a ring-3 process can
/// have one (lower half), otherwise a *shadow* page anywhere plus a redirect in the simulator
/// (usim::world: accesses to the kernel-half page are steered to the shadow, one instruction at a
/// time).
struct Maps {
    real: Vec<u64>,
    shadow: Vec<(u64, u64)>,
}

impl Maps {
    fn new() -> Maps {
        Maps { real: vec![], shadow: vec![] }
    }
    /// one zeroed read/write page exactly at `va`; false if the address is taken
    fn map(&mut self, va: u64) -> bool {
        if va >> 47 != 0 {
            let r = unsafe { libc::mmap(core::ptr::null_mut(), 4096, libc::PROT_READ | libc::PROT_WRITE, libc::MAP_PRIVATE | libc::MAP_ANONYMOUS, -1, 0) };
            if r == libc::MAP_FAILED {
                return false;
            }
            self.shadow.push((va, r as u64));
            world().redirects.push((va, r as u64));
            return true;
        }
        let r = unsafe { libc::mmap(va as *mut libc::c_void, 4096, libc::PROT_READ | libc::PROT_WRITE, libc::MAP_PRIVATE | libc::MAP_ANONYMOUS | libc::MAP_FIXED_NOREPLACE, -1, 0) };
        if r == libc::MAP_FAILED || r as u64 != va {
            if r != libc::MAP_FAILED {
                unsafe { libc::munmap(r, 4096) };
            }
            return false;
        }
        self.real.push(va);
        true
    }
    fn put(&self, va: u64, index: u64, val: u64) {
        let at = match self.shadow.iter().find(|(v, _)| *v == va) {
            Some((_, sh)) => *sh,
            None => {
                debug_assert!(self.real.contains(&va));
                va
            }
        };
        unsafe { ((at + 8 * (index & 511)) as *mut u64).write_volatile(val) }
    }
}

impl Drop for Maps {
    fn drop(&mut self) {
        for va in self.real.drain(..) {
            unsafe { libc::munmap(va as *mut libc::c_void, 4096) };
        }
        for (_, sh) in self.shadow.drain(..) {
            unsafe { libc::munmap(sh as *mut libc::c_void, 4096) };
        }
        world().redirects.clear();
    }
}

/// What a step executed in a forked child reports back (the child may have to give up on an
/// instruction the redirect machinery does not understand: exit status 4).
enum Child {
    Done(Result<(Ctor, Option<(u64, Probe)>), String>, Vec<Ev>, u64),
    Unsupported,
    Crashed(i32),
}

fn in_child(f: impl FnOnce() -> (Result<(Ctor, Option<(u64, Probe)>), String>, Vec<Ev>, u64)) -> Child {
    use std::io::Read;
    unsafe {
        let mut fds = [0i32; 2];
        if libc::pipe(fds.as_mut_ptr()) != 0 {
            eprintln!("HARNESS-ERROR: pipe");
            std::process::exit(2);
        }
        let pid = libc::fork();
        if pid < 0 {
            eprintln!("HARNESS-ERROR: fork");
            std::process::exit(2);
        }
        if pid == 0 {
            libc::close(fds[0]);
            let (res, trace, n) = f();
            // result: code, l4, probe code, probe frame; then the trace as (kind, value) pairs
            let mut w: Vec<u64> = vec![];
            match &res {
                Err(_) => w.extend([9, 0, 0, 0]),
                Ok((c, used)) => {
                    let cc = match c {
                        Ctor::Ok => 0,
                        Ctor::NotRecursive => 1,
                        Ctor::NotActive => 2,
                    };
                    let (l4, pc, pf) = match used {
                        None => (0, 3, 0),
                        Some((l4, Probe::Frame(f))) => (*l4, 0, *f),
                        Some((l4, Probe::NotMapped)) => (*l4, 1, 0),
                        Some((l4, Probe::Other)) => (*l4, 2, 0),
                    };
                    w.extend([cc, l4, pc, pf]);
                }
            }
            w.push(n);
            for e in &trace {
                match e {
                    Ev::ReadCr { cr: 3, val } => w.extend([1, *val]),
                    _ => w.extend([2, 0]),
                }
            }
            let bytes: Vec<u8> = w.iter().flat_map(|x| x.to_le_bytes()).collect();
            libc::write(fds[1], bytes.as_ptr() as *const libc::c_void, bytes.len());
            libc::_exit(0);
        }
        libc::close(fds[1]);
        let mut file = <std::fs::File as std::os::fd::FromRawFd>::from_raw_fd(fds[0]);
        let mut buf = vec![];
        let _ = file.read_to_end(&mut buf);
        let mut status = 0i32;
        libc::waitpid(pid, &mut status, 0);
        let code = if libc::WIFEXITED(status) { libc::WEXITSTATUS(status) } else { 128 + libc::WTERMSIG(status) };
        if code == 4 {
            return Child::Unsupported;
        }
        if code != 0 || buf.len() < 40 {
            return Child::Crashed(code);
        }
        let w: Vec<u64> = buf.chunks_exact(8).map(|c| u64::from_le_bytes(c.try_into().unwrap())).collect();
        let res = if w[0] == 9 {
            Err("(message printed by the child)".to_string())
        } else {
            let c = match w[0] {
                0 => Ctor::Ok,
                1 => Ctor::NotRecursive,
                _ => Ctor::NotActive,
            };
            let used = match w[2] {
                3 => None,
                0 => Some((w[1], Probe::Frame(w[3]))),
                1 => Some((w[1], Probe::NotMapped)),
                _ => Some((w[1], Probe::Other)),
            };
            Ok((c, used))
        };
        let trace = w[5..].chunks_exact(2).map(|p| if p[0] == 1 { Ev::ReadCr { cr: 3, val: p[1] } } else { Ev::Hlt }).collect();
        Child::Done(res, trace, w[4])
    }
}

#[derive(Debug, PartialEq, Eq, Clone, Copy)]
enum Ctor {
    Ok,
    NotRecursive,
    NotActive,
}

#[derive(Debug, PartialEq, Eq, Clone, Copy)]
enum Probe {
    Frame(u64),
    NotMapped,
    Other,
}

/// the call into the crate: constructor, then (if it succeeded) the two uses of the mapper
#[inline(never)]
fn call_new(addr: u64, probe: Option<u64>) -> (Ctor, Option<(u64, Probe)>) {
    ctor_and_probe(addr, probe)
}

/// the same after an address-space switch in the same function (read the old root, load the new
/// one, build the mapper of the new space): straight-line code, so that every read of the root
/// register ends up in one basic block after inlining
#[inline(never)]
fn call_new_switched(addr: u64, probe: Option<u64>, new: u64) -> (u64, (Ctor, Option<(u64, Probe)>)) {
    use x86_64::registers::control::{Cr3, Cr3Flags};
    use x86_64::structures::paging::PhysFrame;
    let (old, flags) = Cr3::read();
    unsafe { Cr3::write(PhysFrame::containing_address(x86_64::PhysAddr::new(new & ADDR)), Cr3Flags::from_bits_truncate(new & 0x18)) };
    let r = ctor_and_probe(addr, probe);
    (old.start_address().as_u64() | flags.bits(), r)
}

#[inline(always)]
fn ctor_and_probe(addr: u64, probe: Option<u64>) -> (Ctor, Option<(u64, Probe)>) {
    let table: &mut PageTable = unsafe { &mut *(core::hint::black_box(addr) as *mut PageTable) };
    match RecursivePageTable::new(table) {
        Err(InvalidPageTable::NotRecursive) => (Ctor::NotRecursive, None),
        Err(InvalidPageTable::NotActive) => (Ctor::NotActive, None),
        Ok(m) => {
            let l4 = m.level_4_table() as *const PageTable as u64;
            let pr = match probe {
                None => Probe::Other,
                Some(pa) => match m.translate_page(Page::<Size4KiB>::containing_address(VirtAddr::new(pa))) {
                    Ok(f) => Probe::Frame(f.start_address().as_u64()),
                    Err(TranslateError::PageNotMapped) => Probe::NotMapped,
                    Err(_) => Probe::Other,
                },
            };
            (Ctor::Ok, Some((l4, pr)))
        }
    }
}

fn u4(v: &Value) -> [u64; 4] {
    let mut o = [0; 4];
    for (k, x) in o.iter_mut().enumerate() {
        *x = v[k].as_u64().unwrap_or(0) & 511;
    }
    o
}

pub fn run(rp: &Replay, st: &mut Stats) -> Option<Violation> {
    let w = world();
    w.cpu = Cpu::default();
    w.rec_slot = None;
    for (i, s) in rp.steps.iter().enumerate() {
        st.steps += 1;
        match s["op"].as_str().unwrap_or("") {
            "ctor" => {
                let idx = u4(&s["idx"]);
                let recursive = idx.iter().all(|x| *x == idx[0]);
                let lower_ok = (R_MIN..=R_MAX).contains(&idx[0]);
                // a recursive address must be backed (the constructor reads the table), and the
                // harness can only back the free user-space slots
                // kernel-half recursive addresses (index 256..=511) cannot be backed by a ring-3
                // process: their pages are shadow pages behind the simulator's redirect, and the
                // step runs in a forked child
                let upper = recursive && idx[0] >= 256;
                if recursive && !lower_ok && !upper {
                    st.count("ctor_skipped_unbackable_address");
                    continue;
                }
                let mapped = recursive || (s["mapped"].as_bool().unwrap_or(false) && lower_ok);
                let addr = compose(idx[0], idx[1], idx[2], idx[3]);
                let slot = s["slot"].as_u64().unwrap_or(0);
                let cr3 = s["cr3"].as_u64().unwrap_or(0) & (ADDR | 0xfff);
                let r = idx[0];
                let pidx = u4(&s["probe"]["idx"]);
                let depth = s["probe"]["depth"].as_u64().unwrap_or(4).min(4);
                let pframe = s["probe"]["frame"].as_u64().unwrap_or(0x5000) & ADDR;
                let expected = if !recursive {
                    Ctor::NotRecursive
                } else if slot & PRESENT != 0 && slot & ADDR == cr3 & ADDR {
                    Ctor::Ok
                } else {
                    Ctor::NotActive
                };
                let mut maps = Maps::new();
                let mut probe_addr = None;
                if mapped {
                    if !maps.map(addr) {
                        st.count("harness_mmap_failed");
                        continue;
                    }
                    if recursive {
                        for a in s["aliases"].as_array().cloned().unwrap_or_default() {
                            let (k, kind, fl) = (a[0].as_u64().unwrap_or(0) % 512, a[1].as_u64().unwrap_or(0), a[2].as_u64().unwrap_or(0));
                            if k == r || k == pidx[0] {
                                continue;
                            }
                            let v = match kind {
                                0 => (cr3 & ADDR) | PRESENT | (fl & 6) | (fl & 1) << 63,
                                1 => slot,
                                _ => (pframe ^ 0x5000) & ADDR | PRESENT | (fl & 6),
                            };
                            maps.put(addr, k, v);
                            st.count("ctor_table_with_other_root_like_slots");
                        }
                        maps.put(addr, r, slot);
                    } else {
                        // whichever slot a sloppy check looks at, it finds an active-looking entry —
                        // or (`fill_slot`) the step's slot value, which may be empty or not present:
                        // the verdict for a non-recursive address does not depend on table contents
                        let fill = if s["fill_slot"].as_bool().unwrap_or(false) { slot } else { (cr3 & ADDR) | PRESENT | 2 };
                        for k in 0..512 {
                            maps.put(addr, k, fill);
                        }
                    }
                    if expected == Ctor::Ok && pidx[0] != r {
                        // what the hardware would resolve through slot R, and only that
                        let t3 = compose(r, r, r, pidx[0]);
                        let t2 = compose(r, r, pidx[0], pidx[1]);
                        let t1 = compose(r, pidx[0], pidx[1], pidx[2]);
                        // depth = number of levels whose entry for the probe page is present; the
                        // table below a present entry exists, everything deeper does not
                        let mut ok = true;
                        if depth >= 1 {
                            maps.put(addr, pidx[0], 0x10_1000 | PRESENT | 2);
                            ok &= maps.map(t3);
                        }
                        if ok && depth >= 2 {
                            maps.put(t3, pidx[1], 0x10_2000 | PRESENT | 2);
                            ok &= maps.map(t2);
                        }
                        if ok && depth >= 3 {
                            maps.put(t2, pidx[2], 0x10_3000 | PRESENT | 2);
                            ok &= maps.map(t1);
                        }
                        if ok && depth >= 4 {
                            maps.put(t1, pidx[3], pframe | PRESENT);
                        }
                        if !ok {
                            st.count("harness_mmap_failed");
                            continue;
                        }
                        probe_addr = Some(compose(pidx[0], pidx[1], pidx[2], pidx[3]));
                    }
                }
                let switch_from = s["switch_from"].as_u64().map(|x| x & (ADDR | 0x18)).filter(|_| !upper);
                world().cpu.cr3 = switch_from.unwrap_or(cr3);
                // (Cr3::write takes typed flags: only bits 3 and 4 of the new value survive)
                let cr3 = if switch_from.is_some() { cr3 & (ADDR | 0x18) } else { cr3 };
                let expected = if !recursive {
                    Ctor::NotRecursive
                } else if slot & PRESENT != 0 && slot & ADDR == cr3 & ADDR {
                    Ctor::Ok
                } else {
                    Ctor::NotActive
                };
                let (res, trace) = if upper {
                    world().redirect_log.clear();
                    match in_child(|| {
                        let r = sut_call("RecursivePageTable::new", || call_new(addr, probe_addr));
                        (r, std::mem::take(&mut world().cpu.trace), world().redirect_log.len() as u64)
                    }) {
                        Child::Done(r, t, n) => {
                            st.count("ctor_kernel_half_recursive_index");
                            st.add("redirected_accesses", n);
                            (r, t)
                        }
                        Child::Unsupported => {
                            st.count("ctor_kernel_half_unsupported_instruction");
                            continue;
                        }
                        Child::Crashed(code) => {
                            return Some(viol(P, "fatal-fault", i, format!("RecursivePageTable::new on the table at indices ({0}, {0}, {0}, {0}) (slot = {slot:#x}, CR3 = {cr3:#x}) made an access the simulated machine cannot resolve (child exit {code})", idx[0])));
                        }
                    }
                } else {
                    let res = sut_call("RecursivePageTable::new", || match switch_from {
                        Some(_) => call_new_switched(addr, probe_addr, cr3).1,
                        None => call_new(addr, probe_addr),
                    });
                    (res, std::mem::take(&mut world().cpu.trace))
                };
                st.calls += 1;
                drop(maps);
                let form = format!("table address with indices ({}, {}, {}, {})", idx[0], idx[1], idx[2], idx[3]);
                let (got, used) = match res {
                    Err(m) => return Some(viol(P, "panic", i, format!("RecursivePageTable::new on a {form} panicked: {m}"))),
                    Ok(x) => x,
                };
                let trace: Vec<Ev> = match switch_from {
                    Some(old) => {
                        if trace.len() < 2 || trace[0] != (Ev::ReadCr { cr: 3, val: old }) || trace[1] != (Ev::WriteCr { cr: 3, val: cr3 }) {
                            return Some(viol(&["C16", "C20"], "switch-trace", i, format!("read of CR3 ({old:#x}) and switch to {cr3:#x} executed {trace:x?}")));
                        }
                        st.count("ctor_after_switch");
                        trace[2..].to_vec()
                    }
                    None => trace,
                };
                if let Some(bad) = trace.iter().find(|e| !matches!(e, Ev::ReadCr { cr: 3, .. })) {
                    return Some(viol(P, "ctor-side-effect", i, format!("RecursivePageTable::new executed {bad:x?}; only reads of CR3 are expected")));
                }
                if got != expected {
                    let sw = switch_from.map(|o| format!(" (switched from {o:#x} in the same function)")).unwrap_or_default();
                    return Some(viol(P, "ctor-result", i, format!("{form}, slot {} = {slot:#x}, CR3 = {cr3:#x}{sw}: expected {expected:?}, got {got:?}", idx[0])));
                }
                match got {
                    Ctor::NotRecursive => st.count(if mapped { "not_recursive_backed_table" } else { "not_recursive_unbacked_address" }),
                    Ctor::NotActive => st.count(if slot & PRESENT == 0 { "not_active_slot_not_present" } else { "not_active_other_frame" }),
                    Ctor::Ok => st.count("ctor_ok"),
                }
                if idx[0] >= 256 {
                    st.count("upper_half_near_form");
                }
                if let Some((l4, pr)) = used {
                    if l4 != addr {
                        return Some(viol(P, "ctor-table", i, format!("level_4_table() of the mapper built on the {form} is a different table (off by {:#x})", l4.wrapping_sub(addr))));
                    }
                    if probe_addr.is_some() {
                        let want = if depth == 4 { Probe::Frame(pframe) } else { Probe::NotMapped };
                        if pr != want {
                            return Some(viol(P, "ctor-recursive-index", i, format!("mapper built on the {form}: the probe page ({}, {}, {}, {}) is laid out {depth} level(s) deep through recursive slot {r}; translate_page gave {pr:x?}, expected {want:x?}", pidx[0], pidx[1], pidx[2], pidx[3])));
                        }
                        st.count("ok_then_probe_through_slot");
                    }
                }
                let slot_class = (slot & PRESENT) | ((slot & ADDR == cr3 & ADDR) as u64) << 1 | ((slot & !ADDR & !3 != 0) as u64) << 2 | ((slot == 0) as u64) << 3;
                let near = idx.iter().filter(|x| **x != idx[0]).count() as u64;
                st.distinct_key(&[1, recursive as u64, near, (idx[0] >= 256) as u64, mapped as u64, slot_class, (cr3 & 0xfff != 0) as u64, if recursive { idx[0] } else { 0 }, if probe_addr.is_some() { depth + 1 } else { 0 }]);
            }
            "arith" => {
                for c in s["cases"].as_array().cloned().unwrap_or_default() {
                    let r = c[0].as_u64().unwrap_or(0) & 511;
                    let page = sign_extend(c[1].as_u64().unwrap_or(0)) & !0xfff;
                    let [p4, p3, p2, _] = indices(page);
                    let want = [compose(r, r, r, p4), compose(r, r, p4, p3), compose(r, p4, p3, p2)];
                    let res = sut_call("verif_table_pages", || {
                        let (a, b, c) = verif_table_pages(Page::<Size4KiB>::containing_address(VirtAddr::new(page)), PageTableIndex::new(r as u16));
                        [a.start_address().as_u64(), b.start_address().as_u64(), c.start_address().as_u64()]
                    });
                    st.calls += 1;
                    let got = match res {
                        Err(m) => return Some(viol(P, "panic", i, format!("table address computation for recursive index {r}, page {page:#x} panicked: {m}"))),
                        Ok(g) => g,
                    };
                    for (k, name) in ["level-3", "level-2", "level-1"].iter().enumerate() {
                        if got[k] != want[k] {
                            return Some(viol(P, "table-address", i, format!("recursive index {r}, page {page:#x} (indices {p4}, {p3}, {p2}): the {name} table is reached at {:#x}, expected {:#x}", got[k], want[k])));
                        }
                    }
                    if !world().cpu.trace.is_empty() {
                        return Some(viol(P, "table-address", i, format!("the address computation executed privileged instructions: {:x?}", world().cpu.trace)));
                    }
                    st.distinct_key(&[2, r, (p4 >= 256) as u64, (p4 == r) as u64]);
                    if r >= 256 {
                        st.count("arith_upper_half_recursive_index");
                    }
                }
            }
            _ => {}
        }
    }
    None
}

pub fn simplify(rp: &Replay) -> Vec<Replay> {
    let mut out = vec![];
    for (i, s) in rp.steps.iter().enumerate() {
        if s["op"] == "arith" {
            if let Some(cs) = s["cases"].as_array() {
                if cs.len() > 1 {
                    for k in 0..cs.len() {
                        let mut c = rp.clone();
                        c.steps[i]["cases"] = json!([cs[k]]);
                        out.push(c);
                    }
                }
            }
        }
        if s["op"] == "ctor" {
            if s["cr3"].as_u64().unwrap_or(0) & 0xfff != 0 {
                let mut c = rp.clone();
                c.steps[i]["cr3"] = json!(s["cr3"].as_u64().unwrap() & ADDR);
                out.push(c);
            }
            if s["probe"]["depth"] != json!(0) {
                let mut c = rp.clone();
                c.steps[i]["probe"]["depth"] = json!(0);
                out.push(c);
            }
        }
    }
    out
}
