//! C15 — segment / TSS descriptors, the TSS and the descriptor-table pointer have the
//! architectural encoding.  Claimed through the consumer: the descriptors are put into a GDT, the
//! GDT is loaded (trapped lgdt) and the simulated CPU fetches and decodes them from raw memory
//! (`ltr`, segment-register loads, IST lookup through TR.base).  Expectations come from the
//! architectural formats (SDM vol. 3 fig. 3-8, 8-4, 8-11, 2-6) and from what the names / docs of
//! the predefined descriptors state.

use crate::c14::{canonical48, drive, make, named, predict, quiet_panics, use_trace, Target, Tbl, NAMED, NAMES};
use serde_json::{json, Value};
use usim::cpu::{Cpu, DtReg, Ev};
use usim::desc::decode_seg;
use usim::driver::{viol, Replay, Stats, Violation};
use usim::prng::Rng;
use usim::world::{sut_call, world};
use x86_64::instructions::tables::{lgdt, lidt};
use x86_64::structures::gdt::{Descriptor, SegmentSelector};
use x86_64::structures::tss::TaskStateSegment;
use x86_64::structures::DescriptorTablePointer;
use x86_64::VirtAddr;

const P: &[&str] = &["C15"];
const CAP: usize = 32;
/// harness-chosen filler for padding slots (never loaded)
const PAD: u64 = 0x0000_1200_0000_0000;

static STATIC_TSS: TaskStateSegment = TaskStateSegment::new();


unsafe fn peek(addr: u64) -> u64 {
    (addr as *const u64).read_unaligned()
}

fn sext48(v: u64) -> u64 {
    (((v << 16) as i64) >> 16) as u64
}

/// What the names of the ten predefined descriptors state: (code, L, D/B, DPL).
fn stated(which: u64) -> (bool, bool, bool, u8) {
    match which % 10 {
        0 | 6 => (true, true, false, 0),  // kernel_code_segment(), KERNEL_CODE64
        1 | 4 => (false, false, true, 0), // kernel_data_segment(), KERNEL_DATA
        2 | 9 => (true, true, false, 3),  // user_code_segment(), USER_CODE64
        3 | 7 => (false, false, true, 3), // user_data_segment(), USER_DATA
        5 => (true, false, true, 0),      // KERNEL_CODE32
        _ => (true, false, true, 3),      // USER_CODE32
    }
}

/// The flat descriptor SYSCALL / SYSRET load for that kind (SDM vol. 2 SYSCALL/SYSRET operation):
/// base 0, limit 0xFFFFF, G = 1, type 11 (execute/read, accessed) or 3 (read/write, accessed),
/// S = 1, P = 1.
fn architectural(code: bool, long: bool, db: bool, dpl: u8) -> u64 {
    let typ: u64 = if code { 11 } else { 3 };
    0xffff | (typ << 40) | (1 << 44) | ((dpl as u64) << 45) | (1 << 47) | (0xf << 48) | ((long as u64) << 53) | ((db as u64) << 54) | (1 << 55)
}

/// A GDT with `pad` filler slots, then `d`; loaded.  Returns (table, selector, slot).
struct Loaded {
    tbl: Box<dyn Tbl>,
    sel: SegmentSelector,
    slot: usize,
    base: u64,
    limit: u16,
}

fn build(d: Descriptor, pad: usize, step: usize, st: &mut Stats) -> Result<Loaded, Violation> {
    let pad = pad.min(CAP - 4);
    let r = sut_call("gdt", || {
        let mut t = make(CAP, None);
        for _ in 0..pad {
            t.append(Descriptor::UserSegment(PAD));
        }
        let sel = t.append(d);
        t.load(false);
        (t, sel)
    });
    st.calls += 3 + pad as u64;
    let (tbl, sel) = match r {
        Ok(x) => x,
        Err(p) => return Err(viol(P, "gdt-panic", step, format!("building and loading a {CAP}-slot GDT with {pad} padding descriptors and the descriptor under test panicked: {p}"))),
    };
    let (base, limit) = match world().cpu.trace.as_slice() {
        [Ev::Lgdt { base, limit, .. }] => (*base, *limit),
        t => return Err(viol(P, "gdt-load", step, format!("loading the GDT must execute exactly one lgdt, the CPU saw {} event(s)", t.len()))),
    };
    let slot = 1 + pad;
    let nwords = matches!(d, Descriptor::SystemSegment(..)) as usize + 1;
    let s = sel.0;
    if s & 4 != 0 || (s >> 3) as usize != slot || 8 * (slot + nwords) - 1 > limit as usize {
        return Err(viol(P, "gdt-selector", step, format!("the descriptor was appended after {pad} padding descriptors (slot {slot}, {nwords} slot(s)); append returned selector {s:#x} and lgdt got limit {limit:#x}: the CPU cannot resolve it to that slot")));
    }
    Ok(Loaded { tbl, sel, slot, base, limit })
}

fn unload() {
    let c = &mut world().cpu;
    c.gdtr = DtReg::default();
    c.idtr = DtReg::default();
    c.tr = Default::default();
}

pub fn gen(seed: u64) -> Replay {
    let mut rng = Rng::new(seed ^ 0xc15);
    let n = rng.range(4, 18);
    let mut steps = vec![];
    for _ in 0..n {
        let pad = if rng.chance(60) { rng.range(15, 24) } else { rng.below(15) };
        match rng.weighted(&[6, 5, 3, 3, 2]) {
            0 => {
                if rng.chance(8) {
                    // a seeded lower-half address (P4 slots 176..239 are free in this process), 8-byte
                    // aligned, all lower address bits varied
                    // any 4-aligned placement, page-straddling ones included (a page pair is mapped)
                    let at = ((176 + rng.below(64)) << 39) | (rng.below(1 << 39) & !3);
                    let at = if rng.chance(20) { (at & !0xfff) | (0xf98 + 4 * rng.below(26)) } else { at };
                    if rng.chance(60) {
                        // the TSS holds seeded contents (I/O-map base beyond the structure, etc.)
                        let iomap = *rng.pick(&[0x68u64, 0x69, 0x100, 0x2000, 0xffff, 0, 0x67]);
                        steps.push(json!({"op": "tss_desc", "via": "static", "pad": pad, "iomap": iomap, "at": at}));
                    } else {
                        steps.push(json!({"op": "tss_desc", "via": "static", "pad": pad, "at": at}));
                    }
                    continue;
                }
                let ptr = match rng.below(11) {
                    // the structure would run past the end (or start) of the address space
                    10 => if rng.chance(70) { u64::MAX - rng.below(0x70) } else { rng.below(0x70) },
                    0 | 1 => 1u64 << rng.below(64),
                    2 | 3 => !(1u64 << rng.below(64)),
                    4 => *rng.pick(&[0u64, u64::MAX, 0x0000_7fff_ffff_ffff, 0xffff_8000_0000_0000, 0x0000_8000_0000_0000, 0xffff_7fff_ffff_ffff, 0x0000_0000_ffff_ffff, 0x0000_0001_0000_0000, 0x0000_0000_00ff_ffff, 0x0000_0000_0100_0000]),
                    5 | 6 => sext48(rng.next()),
                    7 => rng.next() & 0xffff_ffff,
                    _ => rng.next(),
                };
                steps.push(json!({"op": "tss_desc", "via": "unchecked", "ptr": ptr, "pad": pad}));
            }
            1 => {
                let which = rng.below(10);
                let (code, _, _, dpl) = stated(which);
                let mut uses = vec![];
                for _ in 0..rng.range(1, 3) {
                    let reg = if rng.chance(30) {
                        *rng.pick(&NAMES)
                    } else if code {
                        *rng.pick(&["cs", "cs", "ds"])
                    } else {
                        *rng.pick(&["ss", "ss", "ds", "es", "fs", "gs"])
                    };
                    let cpl = if rng.chance(65) { dpl as u64 } else { rng.below(4) };
                    uses.push(json!({"reg": reg, "cpl": cpl, "monitor": rng.chance(25)}));
                }
                steps.push(json!({"op": "predef", "which": which, "pad": pad, "uses": uses}));
            }
            2 => {
                let lo = match rng.below(5) {
                    0 => 1u64 << rng.range(40, 50),
                    1 => !(1u64 << rng.range(40, 50)),
                    2 => rng.below(4) << 45,
                    _ => rng.next(),
                };
                let hi = if rng.chance(35) { json!(rng.next()) } else { Value::Null };
                steps.push(json!({"op": "dpl", "lo": lo, "hi": hi}));
            }
            3 => {
                let val = |rng: &mut Rng| match rng.below(5) {
                    0 => 0,
                    1 => sext48(1u64 << rng.below(48)),
                    2 => sext48(!(1u64 << rng.below(48))),
                    _ => sext48(rng.next()),
                };
                let ist: Vec<u64> = (0..7).map(|_| val(&mut rng)).collect();
                let pst: Vec<u64> = (0..3).map(|_| val(&mut rng)).collect();
                let iomap = if rng.chance(40) { json!(*rng.pick(&[0u64, 0x68, 0xffff, 0x1234, 0x8001])) } else { Value::Null };
                steps.push(json!({"op": "tss_layout", "ist": ist, "pst": pst, "iomap": iomap, "pad": pad, "ctor": if rng.chance(50) { "new" } else { "default" }}));
            }
            _ => {
                let limit = match rng.below(4) {
                    0 => *rng.pick(&[0u64, 0xffff, 0x00ff, 0xff00, 7]),
                    1 => 1 << rng.below(16),
                    _ => rng.below(65536),
                };
                let base = match rng.below(4) {
                    0 => sext48(1u64 << rng.below(48)),
                    1 => sext48(!(1u64 << rng.below(48))),
                    _ => sext48(rng.next()),
                };
                steps.push(json!({"op": "dtp", "limit": limit, "base": base, "insn": if rng.chance(60) { "lgdt" } else { "lidt" }}));
            }
        }
    }
    Replay { property: "C15".into(), simulator: "cpusim".into(), seed, config: json!({"shift8": (seed >> 7) & 1 == 1}), steps, violation: None, minimised_from_steps: None }
}

fn step_tss_desc(s: &Value, i: usize, st: &mut Stats) -> Option<Violation> {
    let is_static = s["via"] == "static";
    // the address of the static is a host address: it never appears in a violation text
    // the `&'static TaskStateSegment` of the safe constructor lives at a SEEDED address (a page pair
    // mapped for the duration of the step), so that the step behaves the same in every process
    let at = s["at"].as_u64().unwrap_or((200u64 << 39) + 0x1000) & !(core::mem::align_of::<TaskStateSegment>() as u64 - 1);
    let mut mapped_at = 0u64;
    let stat: &'static TaskStateSegment = if is_static {
        unsafe {
            let page = at & !0xfff;
            let r = libc::mmap(page as *mut libc::c_void, 8192, libc::PROT_READ | libc::PROT_WRITE, libc::MAP_PRIVATE | libc::MAP_ANONYMOUS | libc::MAP_FIXED_NOREPLACE, -1, 0);
            if r as u64 != page {
                eprintln!("HARNESS-ERROR: cannot map the TSS page at {page:#x}");
                std::process::exit(2);
            }
            mapped_at = page;
            let t = at as *mut TaskStateSegment;
            t.write(TaskStateSegment::new());
            if let Some(io) = s["iomap"].as_u64() {
                (*t).iomap_base = io as u16;
                (*t).interrupt_stack_table[0] = x86_64::VirtAddr::new_truncate(io << 12);
            }
            &*t
        }
    } else {
        &STATIC_TSS
    };
    struct Unmap(u64);
    impl Drop for Unmap {
        fn drop(&mut self) {
            if self.0 != 0 {
                unsafe { libc::munmap(self.0 as *mut libc::c_void, 8192) };
            }
        }
    }
    let _unmap = Unmap(mapped_at);
    let ptr = if is_static { stat as *const TaskStateSegment as u64 } else { s["ptr"].as_u64().unwrap_or(0) };
    let show = |v: u64| format!("{v:#x}");
    let pad = s["pad"].as_u64().unwrap_or(0) as usize;
    let made = sut_call("tss_segment", || if is_static { Descriptor::tss_segment(stat) } else { unsafe { Descriptor::tss_segment_unchecked(ptr as *const TaskStateSegment) } });
    st.calls += 1;
    let d = match made {
        Ok(d) => d,
        Err(p) => return Some(viol(P, "tss-descriptor-panic", i, format!("creating the TSS descriptor for address {} panicked: {p}", show(ptr)))),
    };
    if !matches!(d, Descriptor::SystemSegment(..)) {
        return Some(viol(P, "tss-descriptor-format", i, format!("the TSS descriptor for {} is not a 16-byte system descriptor", show(ptr))));
    }
    let l = match build(d, pad, i, st) {
        Ok(l) => l,
        Err(v) => return Some(v),
    };
    let at = l.base + 8 * l.slot as u64;
    let (lo, hi) = unsafe { (peek(at), peek(at + 8)) };
    // architectural decode of the 16 bytes the CPU fetches (SDM vol. 3 figure 8-4)
    let base = ((lo >> 16) & 0xff_ffff) | (((lo >> 56) & 0xff) << 24) | ((hi & 0xffff_ffff) << 32);
    let lim20 = (lo & 0xffff) | (((lo >> 48) & 0xf) << 16);
    let limit = if lo >> 55 & 1 != 0 { (lim20 << 12) | 0xfff } else { lim20 };
    let typ = (lo >> 40) & 0xf;
    let raw = if is_static { String::new() } else { format!(" (raw quadwords {lo:#018x} {hi:#018x})") };
    let bad = |field: &str, got: String, want: String| Some(viol(P, "tss-descriptor", i, format!("TSS descriptor for address {}: {field} decodes to {got}, expected {want}{raw}", show(ptr))));
    if base != ptr {
        return bad("base (bytes 2-4, 7, 8-11)", show(base), show(ptr));
    }
    if limit != 0x67 {
        return bad("limit (with granularity)", format!("{limit:#x}"), "0x67".into());
    }
    if typ != 9 || lo >> 44 & 1 != 0 {
        return bad("type / S", format!("type {typ:#x}, S={}", lo >> 44 & 1), "type 0x9 (available 64-bit TSS), S=0".into());
    }
    if lo >> 47 & 1 == 0 {
        return bad("P", "0".into(), "1".into());
    }
    if (lo >> 45) & 3 != 0 {
        return bad("DPL", format!("{}", (lo >> 45) & 3), "0".into());
    }
    if (lo >> 53) & 3 != 0 {
        return bad("reserved bits 21-22 of the second dword", format!("{:#x}", (lo >> 53) & 3), "0".into());
    }
    if hi >> 32 != 0 {
        return bad("reserved last dword (bytes 12-15)", format!("{:#x}", hi >> 32), "0".into());
    }
    // the consumer: ltr
    world().cpu.cpl = 0;
    let sel = l.sel.0;
    let canon = canonical48(ptr);
    for round in 0..2 {
        let pred = predict(Target::Tr, sel, 0, l.limit, &|k| unsafe { peek(l.base + 8 * k as u64) });
        let r = drive(Target::Tr, l.sel, false);
        st.calls += 1;
        if let Err(p) = r {
            return Some(viol(P, "load_tss-panic", i, format!("load_tss({sel:#x}) panicked: {p}")));
        }
        let trace = world().cpu.trace.clone();
        let fault = match use_trace(Target::Tr, sel, &trace) {
            Ok(f) => f,
            Err(e) => return Some(viol(P, "load_tss-instruction", i, format!("load_tss({sel:#x}): {e}"))),
        };
        let want_accept = round == 0 && canon;
        if pred.accept != want_accept {
            // the descriptor decoded correctly above, so the two must agree
            eprintln!("HARNESS-ERROR: C15 ltr expectation inconsistent");
            std::process::exit(2);
        }
        match (&fault, want_accept) {
            (Some((v, why)), true) => {
                let why = if is_static { String::new() } else { format!(": {why}") };
                return Some(viol(P, "ltr-refused", i, format!("ltr of the TSS descriptor for canonical address {} was refused by the CPU with vector {v}{why}", show(ptr))));
            }
            (None, false) => return Some(viol(P, "ltr-accepted", i, format!("ltr of the TSS descriptor for {} was accepted by the CPU; expected a refusal ({})", show(ptr), pred.why))),
            _ => {}
        }
        if !want_accept {
            st.count(if canon { "ltr_busy_refused" } else { "ltr_noncanonical_refused" });
            break;
        }
        let tr = world().cpu.tr;
        if tr.base != ptr || tr.limit != 0x67 || tr.typ != 0xb || !tr.present || tr.dpl != 0 || tr.sel != sel {
            return Some(viol(P, "task-register", i, format!("after ltr the task register holds base {}, limit {:#x}, type {:#x}, present {}, DPL {}; expected base {}, limit 0x67, type 0xb (busy), present, DPL 0", show(tr.base), tr.limit, tr.typ, tr.present, tr.dpl, show(ptr))));
        }
        // the busy bit the CPU wrote is visible through the crate's view of the table
        let e = l.tbl.raw_entries();
        if e.get(l.slot).map(|v| (v >> 40) & 0xf) != Some(0xb) {
            return Some(viol(P, "busy-bit", i, format!("after ltr entries()[{}] has type {:x?}, the CPU marked the descriptor busy (type 0xb)", l.slot, e.get(l.slot).map(|v| (v >> 40) & 0xf))));
        }
    }
    let class = if is_static {
        0
    } else if ptr.count_ones() == 1 {
        1 + ptr.trailing_zeros() as u64
    } else if ptr.count_zeros() == 1 {
        100 + (!ptr).trailing_zeros() as u64
    } else {
        200
    };
    st.distinct_key(&[10, class, canon as u64, (l.slot >= 16) as u64]);
    drop(l);
    None
}

fn step_predef(s: &Value, i: usize, st: &mut Stats) -> Option<Violation> {
    let which = s["which"].as_u64().unwrap_or(0) % 10;
    let name = NAMED[which as usize];
    let (code, long, db, dpl) = stated(which);
    let made = sut_call("predefined", || named(which));
    st.calls += 1;
    let d = match made {
        Ok(d) => d,
        Err(p) => return Some(viol(P, "predefined-panic", i, format!("{name} panicked: {p}"))),
    };
    if !matches!(d, Descriptor::UserSegment(_)) {
        return Some(viol(P, "predefined-format", i, format!("{name} is not an 8-byte code/data descriptor")));
    }
    let l = match build(d, s["pad"].as_u64().unwrap_or(0) as usize, i, st) {
        Ok(l) => l,
        Err(v) => return Some(v),
    };
    let at = l.base + 8 * l.slot as u64;
    let raw = unsafe { peek(at) };
    let g = decode_seg(raw);
    let kind = |c: bool| if c { "code" } else { "data" };
    let bad = |field: &str, got: String, want: String| Some(viol(P, "predefined-decode", i, format!("{name} = {raw:#018x}: {field} decodes to {got}, the name states {want}")));
    if !g.s || g.is_code() != code {
        return bad("segment kind", if g.s { kind(g.is_code()).to_string() } else { format!("system type {:#x}", g.typ) }, format!("a {} segment", kind(code)));
    }
    if g.long != long || g.db != db {
        return bad("L / D(B)", format!("L={} D={}", g.long as u8, g.db as u8), format!("L={} D={}", long as u8, db as u8));
    }
    if g.dpl != dpl {
        return bad("DPL", format!("{}", g.dpl), format!("ring {dpl}"));
    }
    if !g.present {
        return bad("P", "0".into(), "present".into());
    }
    // documented: flat, WRITABLE and ACCESSED set, identical to what syscall/sysret load
    let arch = architectural(code, long, db, dpl);
    if raw & !(1 << 52) != arch {
        return Some(viol(P, "predefined-flat", i, format!("{name} = {raw:#018x}: the documentation promises the flat segment syscall/sysret load (base 0, limit 0xfffff, G=1, type {}, S=1, P=1) = {arch:#018x}", if code { "0xb" } else { "0x3" })));
    }
    let dd = sut_call("dpl", || d.dpl() as u8);
    st.calls += 1;
    match dd {
        Err(p) => return Some(viol(P, "dpl-panic", i, format!("{name}.dpl() panicked: {p}"))),
        Ok(v) if v != g.dpl => return Some(viol(P, "dpl", i, format!("{name}.dpl() = {v}, the CPU decodes DPL {} from {raw:#018x}", g.dpl))),
        _ => {}
    }
    let sel = l.sel.0;
    if sel & 3 != dpl as u16 {
        return Some(viol(P, "predefined-selector", i, format!("{name}: append returned selector {sel:#x} with RPL {}, the name states ring {dpl}", sel & 3)));
    }
    for u in s["uses"].as_array().cloned().unwrap_or_default() {
        let t = Target::parse(u["reg"].as_str().unwrap_or("ds"));
        let cpl = (u["cpl"].as_u64().unwrap_or(0) & 3) as u8;
        let mon = u["monitor"].as_bool().unwrap_or(true) || (t != Target::Tr && l.slot < 16);
        world().cpu.cpl = cpl;
        // expectation from what the name states, not from the bytes in memory
        let slot = l.slot;
        let pred = predict(t, sel, cpl, l.limit, &|k| if k == slot { arch } else { PAD });
        let r = drive(t, l.sel, mon);
        st.calls += 1;
        let call = t.call();
        if let Err(p) = r {
            return Some(viol(P, "use-panic", i, format!("{call}({sel:#x}) panicked: {p}")));
        }
        if world().mon_overrun {
            return Some(viol(P, "no-progress", i, format!("{call}({sel:#x}) single-stepped more than {} instructions", world().mon_budget)));
        }
        let trace = world().cpu.trace.clone();
        let fault = match use_trace(t, sel, &trace) {
            Ok(f) => f,
            Err(e) => return Some(viol(P, "use-instruction", i, format!("{call}({sel:#x}): {e}"))),
        };
        let ctx = format!("{call} of the selector for {name} ({raw:#018x}) at CPL {cpl}");
        match (&fault, pred.accept) {
            (Some((v, why)), true) => return Some(viol(P, "predefined-refused", i, format!("{ctx}: a ring {dpl} {}{} segment must be accepted here, the CPU refused with vector {v}: {why}", if code && long { "64-bit " } else { "" }, kind(code)))),
            (None, false) => return Some(viol(P, "predefined-accepted", i, format!("{ctx}: must be refused ({}), the CPU accepted it", pred.why))),
            (Some((v, why)), false) if !pred.vecs.contains(v) => return Some(viol(P, "predefined-refused-differently", i, format!("{ctx}: expected vector {:?} ({}), the CPU raised {v}: {why}", pred.vecs, pred.why))),
            _ => {}
        }
        if pred.accept && t != Target::Tr && world().cpu.sel[t as usize] != sel {
            eprintln!("HARNESS-ERROR: accepted load did not update the simulated register");
            std::process::exit(2);
        }
        st.count(if pred.accept { "predef_use_accepted" } else { "predef_use_refused" });
        st.distinct_key(&[11, which, t as u64, cpl as u64, pred.accept as u64, mon as u64]);
    }
    None
}

fn step_dpl(s: &Value, i: usize, st: &mut Stats) -> Option<Violation> {
    let lo = s["lo"].as_u64().unwrap_or(0);
    let d = match s["hi"].as_u64() {
        Some(hi) => Descriptor::SystemSegment(lo, hi),
        None => Descriptor::UserSegment(lo),
    };
    let want = decode_seg(lo).dpl;
    let r = sut_call("dpl", || d.dpl() as u8);
    st.calls += 1;
    st.distinct_key(&[12, want as u64, s["hi"].is_null() as u64, (lo >> 44) & 0xf]);
    match r {
        Err(p) => Some(viol(P, "dpl-panic", i, format!("{d:x?}.dpl() panicked: {p}"))),
        Ok(v) if v != want => Some(viol(P, "dpl", i, format!("{d:x?}.dpl() = {v}, the CPU decodes DPL {want} (bits 45-46 of the low quadword)"))),
        _ => None,
    }
}

/// name of the architectural TSS field at a byte offset (SDM vol. 3 figure 8-11)
fn tss_field(off: usize) -> String {
    match off {
        0..=3 => "reserved dword at 0x00".into(),
        4..=0x1b => format!("RSP{} at {:#x}", (off - 4) / 8, 4 + 8 * ((off - 4) / 8)),
        0x1c..=0x23 => "reserved quadword at 0x1c".into(),
        0x24..=0x5b => format!("IST{} at {:#x}", (off - 0x24) / 8 + 1, 0x24 + 8 * ((off - 0x24) / 8)),
        0x5c..=0x65 => "reserved bytes at 0x5c".into(),
        _ => "I/O map base at 0x66".into(),
    }
}

fn tss_image(pst: &[u64], ist: &[u64], iomap: u16) -> [u8; 0x68] {
    let mut img = [0u8; 0x68];
    for (n, v) in pst.iter().enumerate().take(3) {
        img[4 + 8 * n..12 + 8 * n].copy_from_slice(&v.to_le_bytes());
    }
    for (n, v) in ist.iter().enumerate().take(7) {
        img[0x24 + 8 * n..0x2c + 8 * n].copy_from_slice(&v.to_le_bytes());
    }
    img[0x66..0x68].copy_from_slice(&iomap.to_le_bytes());
    img
}

fn tss_compare(addr: u64, want: &[u8; 0x68], when: &str, i: usize) -> Option<Violation> {
    for (off, w) in want.iter().enumerate() {
        let got = unsafe { ((addr + off as u64) as *const u8).read_volatile() };
        if got != *w {
            return Some(viol(P, "tss-layout", i, format!("{when}: byte {off:#x} of the TSS in memory ({}) is {got:#04x}, the hardware layout has {w:#04x} there", tss_field(off))));
        }
    }
    None
}

fn step_tss_layout(s: &Value, i: usize, st: &mut Stats) -> Option<Violation> {
    let list = |k: &str, n: usize| -> Vec<u64> {
        let mut v: Vec<u64> = s[k].as_array().map(|a| a.iter().map(|x| sext48(x.as_u64().unwrap_or(0))).collect()).unwrap_or_default();
        v.resize(n, 0);
        v
    };
    let (ist, pst) = (list("ist", 7), list("pst", 3));
    let iomap = s["iomap"].as_u64().map(|v| v as u16);
    let size = core::mem::size_of::<TaskStateSegment>();
    if size != 0x68 {
        return Some(viol(P, "tss-size", i, format!("TaskStateSegment occupies {size:#x} bytes, the 64-bit TSS is 0x68 bytes")));
    }
    let use_default = s["ctor"] == "default";
    let made = sut_call("tss_new", || Box::new(if use_default { TaskStateSegment::default() } else { TaskStateSegment::new() }));
    st.calls += 1;
    let mut tss = match made {
        Ok(t) => t,
        Err(p) => return Some(viol(P, "tss-panic", i, format!("TaskStateSegment::new() panicked: {p}"))),
    };
    let addr = &*tss as *const TaskStateSegment as u64;
    if let Some(v) = tss_compare(addr, &tss_image(&[0; 3], &[0; 7], 0x68), "fresh TSS (all stacks zero, I/O map base = structure size 0x68)", i) {
        return Some(v);
    }
    let r = sut_call("tss_fields", || {
        for n in 0..3 {
            tss.privilege_stack_table[n] = VirtAddr::new(pst[n]);
        }
        for n in 0..7 {
            tss.interrupt_stack_table[n] = VirtAddr::new(ist[n]);
        }
        if let Some(v) = iomap {
            tss.iomap_base = v;
        }
    });
    st.calls += 1;
    if let Err(p) = r {
        return Some(viol(P, "tss-panic", i, format!("storing canonical stack pointers into the TSS fields panicked: {p}")));
    }
    let want = tss_image(&pst, &ist, iomap.unwrap_or(0x68));
    let d = unsafe { Descriptor::tss_segment_unchecked(&*tss) };
    let l = match build(d, s["pad"].as_u64().unwrap_or(0) as usize, i, st) {
        Ok(l) => l,
        Err(v) => return Some(v),
    };
    world().cpu.cpl = 0;
    let r = drive(Target::Tr, l.sel, false);
    st.calls += 1;
    if let Err(p) = r {
        return Some(viol(P, "load_tss-panic", i, format!("load_tss({:#x}) panicked: {p}", l.sel.0)));
    }
    let trace = world().cpu.trace.clone();
    match use_trace(Target::Tr, l.sel.0, &trace) {
        Err(e) => return Some(viol(P, "load_tss-instruction", i, format!("load_tss({:#x}): {e}", l.sel.0))),
        Ok(Some((v, _))) => return Some(viol(P, "ltr-refused", i, format!("ltr of the descriptor made for a live TaskStateSegment was refused by the CPU with vector {v}"))),
        Ok(None) => {}
    }
    let tr = world().cpu.tr;
    if tr.base != addr || tr.limit != 0x67 {
        return Some(viol(P, "task-register", i, format!("after ltr TR.base {} the address of the TaskStateSegment, TR.limit = {:#x} (expected 0x67)", if tr.base == addr { "is" } else { "is not" }, tr.limit)));
    }
    // the CPU's own lookups through TR.base
    for n in 0..7u8 {
        let got = unsafe { world().cpu.ist_stack(n + 1) };
        if got != Ok(ist[n as usize]) {
            return Some(viol(P, "ist-lookup", i, format!("interrupt_stack_table[{n}] was set to {:#x}; the CPU looking up IST{} at TR.base+{:#x} gets {got:x?}", ist[n as usize], n + 1, 0x24 + 8 * n as u64)));
        }
    }
    for n in 0..3u64 {
        let got = unsafe { peek(tr.base + 4 + 8 * n) };
        if got != pst[n as usize] {
            return Some(viol(P, "rsp-lookup", i, format!("privilege_stack_table[{n}] was set to {:#x}; the CPU reading RSP{n} at TR.base+{:#x} gets {got:#x}", pst[n as usize], 4 + 8 * n)));
        }
    }
    if let Some(v) = tss_compare(tr.base, &want, "TSS with stacks stored through the crate's fields", i) {
        return Some(v);
    }
    st.distinct_key(&[13, use_default as u64, iomap.is_some() as u64, (l.slot >= 16) as u64, ist.iter().filter(|v| **v >> 47 != 0).count() as u64]);
    drop(l);
    drop(tss);
    None
}

fn step_dtp(s: &Value, i: usize, st: &mut Stats) -> Option<Violation> {
    let limit = s["limit"].as_u64().unwrap_or(0) as u16;
    let base = sext48(s["base"].as_u64().unwrap_or(0));
    let is_gdt = s["insn"] != "lidt";
    let insn = if is_gdt { "lgdt" } else { "lidt" };
    let size = core::mem::size_of::<DescriptorTablePointer>();
    if size != 10 {
        return Some(viol(P, "pointer-size", i, format!("DescriptorTablePointer occupies {size} bytes, the lgdt/lidt operand is 10 bytes")));
    }
    let p = DescriptorTablePointer { limit, base: VirtAddr::new(base) };
    let r = sut_call(insn, || unsafe {
        if is_gdt {
            lgdt(&p)
        } else {
            lidt(&p)
        }
    });
    st.calls += 1;
    if let Err(m) = r {
        return Some(viol(P, "pointer-panic", i, format!("{insn} panicked: {m}")));
    }
    let trace = world().cpu.trace.clone();
    let (b, l, operand) = match (trace.as_slice(), is_gdt) {
        ([Ev::Lgdt { base, limit, operand }], true) | ([Ev::Lidt { base, limit, operand }], false) => (*base, *limit, *operand),
        _ => return Some(viol(P, "pointer-instruction", i, format!("{insn}(&DescriptorTablePointer {{ limit: {limit:#x}, base: {base:#x} }}) must execute exactly one {insn}; the CPU saw {} event(s)", trace.len()))),
    };
    if operand != &p as *const DescriptorTablePointer as u64 {
        return Some(viol(P, "pointer-operand", i, format!("the memory operand of {insn} is not the DescriptorTablePointer passed in")));
    }
    // the 10 operand bytes as the hardware reads them: 16-bit limit, then 64-bit base
    let bytes: Vec<u8> = (0..10).map(|k| unsafe { ((operand + k) as *const u8).read_volatile() }).collect();
    let mut want = limit.to_le_bytes().to_vec();
    want.extend_from_slice(&base.to_le_bytes());
    if bytes != want || b != base || l != limit {
        return Some(viol(P, "pointer-layout", i, format!("DescriptorTablePointer {{ limit: {limit:#x}, base: {base:#x} }}: {insn} fetched the 10 bytes {bytes:02x?} = limit {l:#x}, base {b:#x}; the hardware layout is {want:02x?}")));
    }
    let reg = if is_gdt { world().cpu.gdtr } else { world().cpu.idtr };
    if reg.base != base || reg.limit != limit {
        eprintln!("HARNESS-ERROR: descriptor-table register does not hold the operand");
        std::process::exit(2);
    }
    st.distinct_key(&[14, is_gdt as u64, limit.count_ones() as u64, (base >> 47 != 0) as u64, base.count_ones().min(3) as u64]);
    None
}

pub fn run(rp: &Replay, st: &mut Stats) -> Option<Violation> {
    quiet_panics();
    world().mon_budget = 5_000;
    crate::c14::SHIFT8.store(rp.config["shift8"].as_bool().unwrap_or(false), core::sync::atomic::Ordering::Relaxed);
    for (i, s) in rp.steps.iter().enumerate() {
        st.steps += 1;
        world().cpu = Cpu::default();
        let v = match s["op"].as_str().unwrap_or("") {
            "tss_desc" => step_tss_desc(s, i, st),
            "predef" => step_predef(s, i, st),
            "dpl" => step_dpl(s, i, st),
            "tss_layout" => step_tss_layout(s, i, st),
            "dtp" => step_dtp(s, i, st),
            _ => None,
        };
        // the step's tables are gone: no register of the simulated CPU may keep pointing at them
        unload();
        if v.is_some() {
            return v;
        }
    }
    None
}

pub fn simplify(rp: &Replay) -> Vec<Replay> {
    let mut out = vec![];
    for (i, s) in rp.steps.iter().enumerate() {
        if s["pad"].as_u64().unwrap_or(16) != 16 {
            let mut c = rp.clone();
            c.steps[i]["pad"] = json!(16);
            out.push(c);
        }
        if let Some(u) = s["uses"].as_array() {
            for k in 0..u.len() {
                if u.len() > 1 {
                    let mut c = rp.clone();
                    c.steps[i]["uses"].as_array_mut().unwrap().remove(k);
                    out.push(c);
                }
            }
        }
        if s["op"] == "tss_layout" {
            for key in ["ist", "pst"] {
                if let Some(a) = s[key].as_array() {
                    for k in 0..a.len() {
                        if a[k] != json!(0) {
                            let mut c = rp.clone();
                            c.steps[i][key][k] = json!(0);
                            out.push(c);
                        }
                    }
                }
            }
        }
    }
    out
}
