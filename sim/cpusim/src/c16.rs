//! C16 — system-register wrappers hit the right register and never lose bits.
//! Environment: the simulated architectural register file behind the trapped `mov cr/dr`,
//! `rdmsr/wrmsr`, `xsetbv`, `swapgs`, `ltr`, and (in monitor mode) `xgetbv`, `mov sreg`, `retfq`,
//! `rd/wr{fs,gs}base`, `pushfq/popfq`.  A run is a history of wrapper calls over seeded prior
//! register contents; the oracle is a reference register file written from the SDM/APM bit layouts
//! (constants below), compared after every step with the instruction trace, the simulated register
//! contents and the wrapper's return value.

use serde_json::{json, Value};
use std::collections::BTreeMap;
use std::sync::Once;
use usim::cpu::{Cpu, DtReg, Ev};
use usim::driver::{viol, Replay, Stats, Violation};
use usim::prng::Rng;
use usim::world::{monitor, sut_call, world};
use x86_64::instructions::segmentation::{Segment, Segment64, CS, DS, ES, FS, GS, SS};
use x86_64::instructions::tables::load_tss;
use x86_64::instructions::tlb::Pcid;
use x86_64::registers::control::{Cr0, Cr0Flags, Cr2, Cr3, Cr3Flags, Cr4, Cr4Flags};
use x86_64::registers::debug::{BreakpointCondition, BreakpointSize, DebugAddressRegister, DebugAddressRegisterNumber, Dr0, Dr1, Dr2, Dr3, Dr6, Dr7, Dr7Flags, Dr7Value};
use x86_64::registers::model_specific::{ApicBase, ApicBaseFlags, CetFlags, Efer, EferFlags, FsBase, GsBase, KernelGsBase, LStar, Msr, Pat, PatMemoryType, SCet, SFMask, Star, UCet};
use x86_64::registers::rflags::{self, RFlags};
use x86_64::registers::segmentation::SegmentSelector;
use x86_64::registers::xcontrol::{XCr0, XCr0Flags};
use x86_64::structures::paging::{Page, PhysFrame, Size4KiB};
use x86_64::{PhysAddr, VirtAddr};

// ---- architectural bit layouts (SDM vol. 3 ch. 2, 18; vol. 4; APM vol. 2) -------------------------
/// CR0: PE MP EM TS ET NE (0..5), WP 16, AM 18, NW 29, CD 30, PG 31
const CR0_ALL: u64 = 0xe005_003f;
/// CR4: bits 0..14 (VME..SMXE), 16..24 (FSGSBASE..PKS)
const CR4_ALL: u64 = 0x01ff_7fff;
const CR4_PCIDE: u64 = 1 << 17;
/// EFER: SCE 0, LME 8, LMA 10, NXE 11, SVME 12, LMSLE 13, FFXSR 14, TCE 15
const EFER_ALL: u64 = 0xfd01;
/// EFER bits real processors implement that the type does not model: MCOMMIT 17, INTWB 18, UAIE 20, AIBRSE 21
const EFER_EXTRA: u64 = 0x36_0000;
/// DR6: B0..B3, BD 13, BS 14, BT 15, RTM 16
const DR6_ALL: u64 = 0x1_e00f;
/// DR7: L0..G3 (0..7), LE 8, GE 9, RTM 11, GD 13, R/W+LEN fields 16..31
const DR7_FLAGS: u64 = 0x2bff;
const DR7_VALID: u64 = 0xffff_0000 | DR7_FLAGS;
/// XCR0: x87 SSE AVX BNDREG BNDCSR opmask ZMM_Hi256 Hi16_ZMM (0..7), PKRU 9, LWP 62
const XCR0_ALL: u64 = 0x4000_0000_0000_02ff;
/// RFLAGS: CF PF AF ZF SF TF IF DF OF IOPL NT RF VM AC VIF VIP ID
const RFLAGS_ALL: u64 = 0x3f_7fd5;
/// arithmetic flags and DF: owned by the native register, not by the simulator
const RFLAGS_ARITH: u64 = 0x8d5 | 0x400;
/// system flags popfq at CPL 0 stores faithfully and that are harmless for the harness: IOPL NT AC ID
const RFLAGS_SYS_SAFE: u64 = 0x3000 | 0x4000 | 0x4_0000 | 0x20_0000;
/// flag arguments the harness passes to rflags::write: status flags, IF and the safe system flags
/// (never DF — Rust code requires DF = 0 — nor TF/RF/VM/VIF/VIP, which popfq does not store)
const RFLAGS_ARG_SAFE: u64 = 0x8d5 | 0x200 | RFLAGS_SYS_SAFE;
/// IA32_U_CET / IA32_S_CET: flags 0..5, SUPPRESS 10, TRACKER 11, bitmap base 12..63
const CET_FLAGS: u64 = 0xc3f;
/// IA32_APIC_BASE: BSP 8, EXTD 10, EN 11, base 12..51
const APIC_FLAGS: u64 = 0xd00;
/// bits 12..51: physical frame address
const ADDR52: u64 = 0x000f_ffff_ffff_f000;
const CR3_FLAGS: u64 = 0x18;

const MSR_EFER: u32 = 0xC000_0080;
const MSR_STAR: u32 = 0xC000_0081;
const MSR_LSTAR: u32 = 0xC000_0082;
const MSR_CSTAR: u32 = 0xC000_0083;
const MSR_SFMASK: u32 = 0xC000_0084;
const MSR_FS_BASE: u32 = 0xC000_0100;
const MSR_GS_BASE: u32 = 0xC000_0101;
const MSR_KGS_BASE: u32 = 0xC000_0102;
const MSR_APIC_BASE: u32 = 0x1B;
const MSR_PAT: u32 = 0x277;
const MSR_U_CET: u32 = 0x6A0;
const MSR_S_CET: u32 = 0x6A2;
const PAT_DEFAULT: u64 = 0x0007_0406_0007_0406;
const PAT_CODES: [u8; 6] = [0, 1, 4, 5, 6, 7];

fn canon(v: u64) -> u64 {
    ((v << 16) as i64 >> 16) as u64
}
fn is_canon(v: u64) -> bool {
    canon(v) == v
}

#[derive(Clone, Copy, Debug, PartialEq, Eq)]
enum Reg {
    Cr(u8),
    Dr(u8),
    Xcr0,
    Msr(u32),
}

fn ev_read(r: Reg, val: u64) -> Ev {
    match r {
        Reg::Cr(cr) => Ev::ReadCr { cr, val },
        Reg::Dr(dr) => Ev::ReadDr { dr, val },
        Reg::Xcr0 => Ev::Xgetbv { ecx: 0, val },
        Reg::Msr(idx) => Ev::Rdmsr { idx, val },
    }
}
fn ev_write(r: Reg, val: u64) -> Ev {
    match r {
        Reg::Cr(cr) => Ev::WriteCr { cr, val },
        Reg::Dr(dr) => Ev::WriteDr { dr, val },
        Reg::Xcr0 => Ev::Xsetbv { ecx: 0, val },
        Reg::Msr(idx) => Ev::Wrmsr { idx, val },
    }
}
fn is_read_ev(e: &Ev) -> bool {
    matches!(e, Ev::ReadCr { .. } | Ev::ReadDr { .. } | Ev::Rdmsr { .. } | Ev::Xgetbv { .. } | Ev::ReadSreg { .. } | Ev::RdBase { .. } | Ev::Pushfq { .. })
}

/// Which architectural register an access event refers to (family, index), and the value it carries.
fn reg_of(e: &Ev) -> Option<((u8, u64), u64)> {
    Some(match e {
        Ev::ReadCr { cr, val } | Ev::WriteCr { cr, val } => ((0, *cr as u64), *val),
        Ev::ReadDr { dr, val } | Ev::WriteDr { dr, val } => ((1, *dr as u64), *val),
        Ev::Rdmsr { idx, val } | Ev::Wrmsr { idx, val } => ((2, *idx as u64), *val),
        Ev::Xgetbv { ecx, val } | Ev::Xsetbv { ecx, val } => ((3, *ecx as u64), *val),
        Ev::Pushfq { val } | Ev::Popfq { val } => ((4, 0), *val),
        Ev::ReadSreg { sreg, val } | Ev::WriteSreg { sreg, val } => ((5, *sreg as u64), *val as u64),
        Ev::RdBase { gs, val } | Ev::WrBase { gs, val } => ((6, *gs as u64), *val),
        _ => return None,
    })
}

/// Does the observed instruction trace do what the reference trace does?  The property names
/// effects (which register, which value ends up in it), not the instruction stream: reads of a
/// register the reference touches are free (before, after, repeated - a read-back to verify, say),
/// and a write that would store the value the register was just read to hold may be left out.
/// Everything else - a write with another value, an access to another register, any other
/// instruction, the order of the writes - has to match.
fn traces_agree(obs: &[Ev], want: &[Ev]) -> bool {
    let touched: Vec<(u8, u64)> = want.iter().filter_map(|e| reg_of(e).map(|x| x.0)).collect();
    let free_read = |e: &Ev| is_read_ev(e) && reg_of(e).map_or(false, |x| touched.contains(&x.0));
    // reference without its free reads, each write marked optional when the register is known
    // (from an earlier event of the reference) to hold that value already
    let mut known: Vec<((u8, u64), u64)> = vec![];
    let mut want2: Vec<(&Ev, bool)> = vec![];
    for e in want {
        if let Some((id, val)) = reg_of(e) {
            let holds = known.iter().rev().find(|k| k.0 == id).map(|k| k.1);
            if !is_read_ev(e) {
                want2.push((e, holds == Some(val)));
            }
            known.push((id, val));
        } else {
            want2.push((e, false));
        }
    }
    let mut it = obs.iter().filter(|e| !free_read(e)).peekable();
    for (e, optional) in want2 {
        match it.peek() {
            Some(o) if *o == e => {
                it.next();
            }
            _ if optional => {}
            _ => return false,
        }
    }
    it.next().is_none()
}

/// XSETBV #GP rules (SDM vol. 2 XSETBV): XCR0[0] must be 1; AVX needs SSE; BNDREG and BNDCSR
/// together; the three AVX-512 components together and only with AVX.
fn xcr0_ok(v: u64) -> bool {
    let b = |n: u32| v >> n & 1 != 0;
    let n512 = b(5) as u32 + b(6) as u32 + b(7) as u32;
    b(0) && (!b(2) || b(1)) && b(3) == b(4) && (n512 == 0 || (n512 == 3 && b(2)))
}

/// Values a model-specific register can hold on real processors (wrmsr of anything else raises
/// #GP): used for seeded prior contents and for generic `Msr::write` steps, so that no typed
/// reader is ever confronted with contents that cannot exist.
fn sanitize_msr(idx: u32, v: u64) -> u64 {
    match idx {
        MSR_PAT => {
            let mut o = 0u64;
            for k in 0..8 {
                let b = (v >> (8 * k)) & 7;
                let b = if b == 2 || b == 3 { 0 } else { b };
                o |= b << (8 * k);
            }
            o
        }
        MSR_U_CET | MSR_S_CET => {
            let mut o = (v & CET_FLAGS) | (canon(v) & !0xfff);
            if o & 0xc00 == 0xc00 {
                o &= !0x800;
            }
            o
        }
        MSR_APIC_BASE => v & (ADDR52 | APIC_FLAGS),
        MSR_SFMASK => v & 0xffff_ffff,
        MSR_EFER => v & (EFER_ALL | EFER_EXTRA),
        _ => v,
    }
}

/// The reference register file.
#[derive(Clone, Debug)]
struct Model {
    cr0: u64,
    cr2: u64,
    cr3: u64,
    cr4: u64,
    dr: [u64; 8],
    xcr0: u64,
    msr: BTreeMap<u32, u64>,
    /// FS.base, GS.base, KernelGSbase; None = not determined by the reference (after a selector load)
    base: [Option<u64>; 3],
    /// ES CS SS DS FS GS
    sel: [u16; 6],
    cpl: u8,
    iflag: bool,
    fl_sys: u64,
}

impl Model {
    fn get(&self, r: Reg) -> Option<u64> {
        Some(match r {
            Reg::Cr(0) => self.cr0,
            Reg::Cr(2) => self.cr2,
            Reg::Cr(3) => self.cr3,
            Reg::Cr(4) => self.cr4,
            Reg::Cr(_) => 0,
            Reg::Dr(n) => self.dr[n as usize & 7],
            Reg::Xcr0 => self.xcr0,
            Reg::Msr(MSR_FS_BASE) => return self.base[0],
            Reg::Msr(MSR_GS_BASE) => return self.base[1],
            Reg::Msr(MSR_KGS_BASE) => return self.base[2],
            Reg::Msr(i) => *self.msr.get(&i).unwrap_or(&0),
        })
    }

    /// Architectural effect of a write instruction.  Returns true if the processor refuses it (#GP).
    fn put(&mut self, r: Reg, v: u64) -> bool {
        match r {
            Reg::Cr(0) => {
                if v >> 32 != 0 {
                    return true;
                }
                self.cr0 = v;
            }
            Reg::Cr(2) => self.cr2 = v,
            Reg::Cr(3) => {
                if v >> 63 != 0 && self.cr4 & CR4_PCIDE == 0 {
                    return true;
                }
                self.cr3 = v & !(1 << 63);
            }
            Reg::Cr(4) => {
                if v >> 32 != 0 {
                    return true;
                }
                self.cr4 = v;
            }
            Reg::Cr(_) => return true,
            Reg::Dr(n) => {
                if (n == 6 || n == 7) && v >> 32 != 0 {
                    return true;
                }
                self.dr[n as usize & 7] = v;
            }
            Reg::Xcr0 => {
                if !xcr0_ok(v) {
                    return true;
                }
                self.xcr0 = v;
            }
            Reg::Msr(i) => {
                if matches!(i, MSR_FS_BASE | MSR_GS_BASE | MSR_KGS_BASE | MSR_LSTAR | MSR_CSTAR) && !is_canon(v) {
                    return true;
                }
                match i {
                    MSR_FS_BASE => self.base[0] = Some(v),
                    MSR_GS_BASE => self.base[1] = Some(v),
                    MSR_KGS_BASE => self.base[2] = Some(v),
                    _ => {
                        self.msr.insert(i, v);
                    }
                }
            }
        }
        false
    }

    fn from_config(p: &Value) -> Model {
        let u = |k: &str, d: u64| p[k].as_u64().unwrap_or(d);
        let mut m = Model {
            cr0: u("cr0", 0x8005_0033) & 0xffff_ffff,
            cr2: u("cr2", 0),
            cr3: u("cr3", 0) & !(0xfff << 52),
            cr4: u("cr4", 0x20) & 0xffff_ffff,
            dr: [0, 0, 0, 0, 0, 0, 0xffff_0ff0, 0x400],
            xcr0: u("xcr0", 1),
            msr: BTreeMap::new(),
            base: [Some(canon(u("fs_base", 0))), Some(canon(u("gs_base", 0))), Some(canon(u("kgs_base", 0)))],
            sel: [0x10, 0x08, 0x10, 0x10, 0, 0],
            cpl: 0,
            iflag: p["iflag"].as_bool().unwrap_or(true),
            fl_sys: u("rflags_sys", 0) & RFLAGS_SYS_SAFE,
        };
        if !xcr0_ok(m.xcr0) {
            m.xcr0 = 1;
        }
        if let Some(a) = p["dr"].as_array() {
            for (k, v) in a.iter().enumerate().take(8) {
                m.dr[k] = v.as_u64().unwrap_or(0);
            }
            m.dr[6] &= 0xffff_ffff;
            m.dr[7] &= 0xffff_ffff;
        }
        if let Some(a) = p["sel"].as_array() {
            for (k, v) in a.iter().enumerate().take(6) {
                m.sel[k] = v.as_u64().unwrap_or(0) as u16;
            }
        }
        if let Some(a) = p["msr"].as_array() {
            for e in a {
                let idx = e[0].as_u64().unwrap_or(0) as u32;
                let mut v = sanitize_msr(idx, e[1].as_u64().unwrap_or(0));
                if matches!(idx, MSR_LSTAR | MSR_CSTAR) {
                    v = canon(v);
                }
                if !matches!(idx, MSR_FS_BASE | MSR_GS_BASE | MSR_KGS_BASE) {
                    m.msr.insert(idx, v);
                }
            }
        }
        m
    }

    fn install(&self, c: &mut Cpu) {
        c.cr0 = self.cr0;
        c.cr2 = self.cr2;
        c.cr3 = self.cr3;
        c.cr4 = self.cr4;
        c.dr = self.dr;
        c.xcr0 = self.xcr0;
        for (k, v) in &self.msr {
            c.set_msr_raw(*k, *v);
        }
        c.fs_base = self.base[0].unwrap_or(0);
        c.gs_base = self.base[1].unwrap_or(0);
        c.kernel_gs_base = self.base[2].unwrap_or(0);
        c.sel = self.sel;
        c.cpl = self.cpl;
        c.iflag = self.iflag;
        c.rflags_sys = self.fl_sys;
    }

    /// Differences between the reference and the simulated register file.
    fn diff(&self, c: &Cpu) -> Option<String> {
        let mut out = vec![];
        let mut chk = |name: String, want: u64, got: u64| {
            if want != got {
                out.push(format!("{name}: simulated register holds {got:#x}, reference {want:#x}"));
            }
        };
        chk("CR0".into(), self.cr0, c.cr0);
        chk("CR2".into(), self.cr2, c.cr2);
        chk("CR3".into(), self.cr3, c.cr3);
        chk("CR4".into(), self.cr4, c.cr4);
        for n in [0usize, 1, 2, 3, 6, 7] {
            chk(format!("DR{n}"), self.dr[n], c.dr[n]);
        }
        chk("XCR0".into(), self.xcr0, c.xcr0);
        let mut keys: Vec<u32> = self.msr.keys().cloned().collect();
        keys.extend(c.msr.keys().cloned());
        keys.sort();
        keys.dedup();
        for k in keys {
            chk(format!("MSR {k:#x}"), *self.msr.get(&k).unwrap_or(&0), c.msr_raw(k));
        }
        for (k, (name, got)) in [("FS.base", c.fs_base), ("GS.base", c.gs_base), ("KernelGSbase", c.kernel_gs_base)].iter().enumerate() {
            if let Some(w) = self.base[k] {
                chk(name.to_string(), w, *got);
            }
        }
        for (k, name) in ["ES", "CS", "SS", "DS", "FS", "GS"].iter().enumerate() {
            chk(name.to_string(), self.sel[k] as u64, c.sel[k] as u64);
        }
        chk("CPL".into(), self.cpl as u64, c.cpl as u64);
        chk("RFLAGS.IF".into(), self.iflag as u64, c.iflag as u64);
        chk("RFLAGS system flags".into(), self.fl_sys, c.rflags_sys & !0x100);
        if out.is_empty() {
            None
        } else {
            Some(out.join("; "))
        }
    }
}

// ---- descriptor-table side of selector loads (SDM vol. 2 MOV / RET, vol. 3 §3.4.5, §5) ------------

fn gdt_entry(gdt: &[u64], k: usize) -> u64 {
    // the simulated CPU sets accessed / busy bits through a raw pointer
    unsafe { core::ptr::read_volatile(&gdt[k]) }
}

/// Does the processor accept loading `sel` into segment register `sreg` (0 ES 1 CS(far return) 2 SS 3 DS 4 FS 5 GS)?
fn seg_load_ok(gdt: &[u64], sreg: u8, sel: u16, cpl: u8) -> bool {
    let rpl = (sel & 3) as u8;
    if sel & !3 == 0 {
        return match sreg {
            1 => false,
            2 => cpl != 3 && rpl == cpl,
            _ => true,
        };
    }
    if sel & 4 != 0 {
        return false; // LDT: LDTR is null
    }
    let k = (sel >> 3) as usize;
    if k >= gdt.len() {
        return false;
    }
    let d = gdt_entry(gdt, k);
    let typ = (d >> 40) & 0xf;
    let s = d >> 44 & 1 != 0;
    let dpl = ((d >> 45) & 3) as u8;
    let present = d >> 47 & 1 != 0;
    let (l, db) = (d >> 53 & 1 != 0, d >> 54 & 1 != 0);
    let code = s && typ & 8 != 0;
    let data = s && typ & 8 == 0;
    let conforming = code && typ & 4 != 0;
    match sreg {
        1 => code && rpl >= cpl && (if conforming { dpl <= rpl } else { dpl == rpl }) && present && !(l && db),
        2 => data && typ & 2 != 0 && rpl == cpl && dpl == cpl && present,
        _ => (data || (code && typ & 2 != 0)) && (conforming || dpl >= cpl.max(rpl)) && present,
    }
}

// ---- calling into the crate ----------------------------------------------------------------------

static HOOK: Once = Once::new();

/// A panic of the crate inside a monitored call would be unwound under single-stepping: the hook
/// exhausts the monitor budget so that the next instruction boundary leaves monitor mode.  Panics
/// of the crate are outcomes (caught by `sut_call`), so they are not printed.
fn install_hook() {
    HOOK.call_once(|| {
        std::panic::set_hook(Box::new(|info| {
            let w = world();
            if w.mon_active {
                unsafe { core::ptr::write_volatile(&mut w.mon_steps, w.mon_budget) };
            }
            if !w.in_sut {
                eprintln!("HARNESS-ERROR: {info}");
            }
        }));
    });
}

struct Out<T> {
    r: Result<T, String>,
    trace: Vec<Ev>,
    overrun: bool,
}

fn call<T>(label: &str, mon: bool, f: impl FnOnce() -> T) -> Out<T> {
    let r = sut_call(label, || if mon { monitor(f) } else { f() });
    let w = world();
    let overrun = mon && w.mon_overrun && r.is_ok();
    w.mon_active = false;
    let trace = std::mem::take(&mut w.cpu.trace);
    Out { r, trace, overrun }
}

impl<T> Out<T> {
    fn map<U>(self, f: impl FnOnce(T) -> U) -> Out<U> {
        Out { r: self.r.map(f), trace: self.trace, overrun: self.overrun }
    }
}

/// What the reference expects of one call.
struct Exp {
    /// expected instruction events (refusals of the simulated CPU excluded)
    evs: Vec<Ev>,
    /// expected encoding of the return value
    ret: Option<Vec<u64>>,
    /// None: the input came through the typed API, a refusal (#GP) reaching the crate is a violation.
    /// Some(x): raw value / broken documented precondition chosen by the caller: refusal iff x.
    fault: Option<bool>,
    /// `update` = typed read + typed write: repeated identical reads are collapsed
    collapse: bool,
    /// the documentation promises a rejection (panic or Err): no write instruction may execute
    reject: bool,
    /// the rejection is a panic
    panic: bool,
}

impl Exp {
    fn new(evs: Vec<Ev>, ret: Option<Vec<u64>>) -> Exp {
        Exp { evs, ret, fault: None, collapse: false, reject: false, panic: false }
    }
    fn fault(mut self, predicted: bool) -> Exp {
        self.fault = Some(predicted);
        self
    }
    fn collapse(mut self) -> Exp {
        self.collapse = true;
        self
    }
    fn rejected(ret: Option<Vec<u64>>, panic: bool) -> Exp {
        Exp { evs: vec![], ret, fault: None, collapse: false, reject: true, panic }
    }
}

struct Cx<'a> {
    i: usize,
    op: String,
    s: &'a Value,
    m: &'a mut Model,
    st: &'a mut Stats,
    gdt: &'a [u64],
    /// class bits for the coverage key
    class: u64,
}

type R = Result<(), Violation>;

impl<'a> Cx<'a> {
    fn fail(&self, oracle: &str, detail: String) -> Violation {
        viol(&["C16"], &format!("{oracle}/{}", self.op), self.i, format!("{} {}: {}", self.op, self.s, detail))
    }
    fn u(&self, k: &str) -> u64 {
        self.s[k].as_u64().unwrap_or(0)
    }
    fn has(&self, k: &str) -> bool {
        self.s[k].is_u64()
    }

    /// Prior raw contents of `reg`; where the reference does not determine them (segment base after
    /// a selector load) the value the read instruction delivered is adopted.
    fn prior<T>(&mut self, reg: Reg, out: &Out<T>) -> Result<u64, Violation> {
        if let Some(p) = self.m.get(reg) {
            return Ok(p);
        }
        self.st.count("base_unknown_to_reference");
        match (reg, out.trace.first()) {
            (Reg::Msr(i), Some(Ev::Rdmsr { idx, val })) if *idx == i => {
                let v = *val;
                match i {
                    MSR_FS_BASE => self.m.base[0] = Some(v),
                    MSR_GS_BASE => self.m.base[1] = Some(v),
                    _ => self.m.base[2] = Some(v),
                }
                Ok(v)
            }
            _ => Err(self.fail("trace", format!("expected a read of {reg:x?} first, executed {:x?}", out.trace))),
        }
    }

    fn finish(&mut self, out: Out<Vec<u64>>, exp: Exp) -> R {
        self.st.calls += 1;
        if out.overrun {
            return Err(self.fail("no-progress", format!("more than {} instructions single-stepped in one wrapper call", world().mon_budget)));
        }
        let is_read_op = self.op.contains("read") || self.op.contains("get");
        match (&out.r, exp.panic) {
            (Err(msg), false) => {
                let oracle = if is_read_op { "typed-read-panic" } else { "panic" };
                let want = match &exp.ret {
                    Some(r) if is_read_op => format!("; the modelled bits of the register contents are {r:x?}"),
                    _ => String::new(),
                };
                return Err(self.fail(oracle, format!("panicked ({msg}) after executing {:x?}{want}", out.trace)));
            }
            (Ok(_), true) => {
                return Err(self.fail("rejection-missing", format!("the documentation promises a panic for this argument, the call returned after executing {:x?}", out.trace)));
            }
            (Err(_), true) => self.st.count("documented_panic"),
            _ => {}
        }
        let faults: Vec<&Ev> = out.trace.iter().filter(|e| matches!(e, Ev::Fault { .. })).collect();
        let mut core: Vec<Ev> = out.trace.iter().filter(|e| !matches!(e, Ev::Fault { .. })).cloned().collect();
        if exp.reject {
            if let Some(e) = core.iter().find(|e| !is_read_ev(e)) {
                return Err(self.fail("write-before-rejection", format!("the argument must be rejected without writing, but {e:x?} executed (trace {:x?})", out.trace)));
            }
            if !faults.is_empty() {
                return Err(self.fail("fault-reached-crate", format!("{:x?}", out.trace)));
            }
            self.st.count("rejected_before_write");
        } else {
            // how often a register is read in a row is the implementation's business (a typed
            // write may read once or twice): consecutive identical reads count as one
            let _ = exp.collapse;
            core.dedup_by(|b, a| is_read_ev(a) && a == b);
            if !traces_agree(&core, &exp.evs) {
                return Err(self.fail("trace", format!("executed {:x?}, the reference expects {:x?} (up to reads of the same register and a write of the value the register already holds)", out.trace, exp.evs)));
            }
            match exp.fault {
                None if !faults.is_empty() => {
                    return Err(self.fail("fault-reached-crate", format!("the wrapper accepted its typed argument but the processor refused the instruction: {:x?}", out.trace)));
                }
                Some(p) if p != !faults.is_empty() => {
                    return Err(self.fail("fault-mismatch", format!("reference predicts refusal = {p}, simulated CPU trace {:x?}", out.trace)));
                }
                Some(true) => {
                    self.st.count("expected_fault");
                    self.class |= 1 << 8;
                }
                _ => {}
            }
        }
        if let (Ok(got), Some(want)) = (&out.r, &exp.ret) {
            if got != want {
                return Err(self.fail("return-value", format!("returned {got:x?}, the reference expects {want:x?} (trace {:x?})", out.trace)));
            }
        }
        Ok(())
    }
}

// ---- flag-register families: read / read_raw / write / write_raw / update ---------------------------

type UpdFn = fn(&mut dyn FnMut(u64) -> u64);

struct Fam {
    name: &'static str,
    reg: Reg,
    /// bits the typed value models
    model: u64,
    /// reading needs monitor mode (xgetbv does not trap)
    mon: bool,
    /// typed write is documented to preserve unmodelled bits (reads the register first)
    rmw: bool,
    /// documented validity of a typed value (XCr0::write panics otherwise)
    valid: fn(u64) -> bool,
    read: Option<fn() -> u64>,
    read_raw: Option<fn() -> u64>,
    write: Option<fn(u64)>,
    write_raw: Option<fn(u64)>,
    update: Option<UpdFn>,
}

fn always(_: u64) -> bool {
    true
}

fn families() -> Vec<Fam> {
    vec![
        Fam {
            name: "cr0",
            reg: Reg::Cr(0),
            model: CR0_ALL,
            mon: false,
            rmw: true,
            valid: always,
            read: Some(|| Cr0::read().bits()),
            read_raw: Some(Cr0::read_raw),
            write: Some(|v| unsafe { Cr0::write(Cr0Flags::from_bits_truncate(v)) }),
            write_raw: Some(|v| unsafe { Cr0::write_raw(v) }),
            update: Some(|g| unsafe { Cr0::update(|f| *f = Cr0Flags::from_bits_truncate(g(f.bits()))) }),
        },
        Fam {
            name: "cr4",
            reg: Reg::Cr(4),
            model: CR4_ALL,
            mon: false,
            rmw: true,
            valid: always,
            read: Some(|| Cr4::read().bits()),
            read_raw: Some(Cr4::read_raw),
            write: Some(|v| unsafe { Cr4::write(Cr4Flags::from_bits_truncate(v)) }),
            write_raw: Some(|v| unsafe { Cr4::write_raw(v) }),
            update: Some(|g| unsafe { Cr4::update(|f| *f = Cr4Flags::from_bits_truncate(g(f.bits()))) }),
        },
        Fam {
            name: "efer",
            reg: Reg::Msr(MSR_EFER),
            model: EFER_ALL,
            mon: false,
            rmw: true,
            valid: always,
            read: Some(|| Efer::read().bits()),
            read_raw: Some(Efer::read_raw),
            write: Some(|v| unsafe { Efer::write(EferFlags::from_bits_truncate(v)) }),
            write_raw: Some(|v| unsafe { Efer::write_raw(v) }),
            update: Some(|g| unsafe { Efer::update(|f| *f = EferFlags::from_bits_truncate(g(f.bits()))) }),
        },
        Fam {
            name: "xcr0",
            reg: Reg::Xcr0,
            model: XCR0_ALL,
            mon: true,
            rmw: true,
            valid: xcr0_ok,
            read: Some(|| XCr0::read().bits()),
            read_raw: Some(XCr0::read_raw),
            write: Some(|v| unsafe { XCr0::write(XCr0Flags::from_bits_truncate(v)) }),
            write_raw: Some(|v| unsafe { XCr0::write_raw(v) }),
            update: Some(|g| unsafe { XCr0::update(|f| *f = XCr0Flags::from_bits_truncate(g(f.bits()))) }),
        },
        Fam {
            name: "dr7",
            reg: Reg::Dr(7),
            model: DR7_VALID,
            mon: false,
            rmw: true,
            valid: always,
            read: Some(|| Dr7::read().bits()),
            read_raw: Some(Dr7::read_raw),
            write: Some(|v| Dr7::write(Dr7Value::from_bits_truncate(v))),
            write_raw: Some(Dr7::write_raw),
            update: Some(|g| Dr7::update(|f| *f = Dr7Value::from_bits_truncate(g(f.bits())))),
        },
        Fam {
            name: "dr6",
            reg: Reg::Dr(6),
            model: DR6_ALL,
            mon: false,
            rmw: false,
            valid: always,
            read: Some(|| Dr6::read().bits()),
            read_raw: Some(Dr6::read_raw),
            write: None,
            write_raw: None,
            update: None,
        },
        Fam {
            name: "sfmask",
            reg: Reg::Msr(MSR_SFMASK),
            model: RFLAGS_ALL,
            mon: false,
            rmw: false,
            valid: always,
            read: Some(|| SFMask::read().bits()),
            read_raw: None,
            write: Some(|v| SFMask::write(RFlags::from_bits_truncate(v))),
            write_raw: None,
            update: Some(|g| SFMask::update(|f| *f = RFlags::from_bits_truncate(g(f.bits())))),
        },
    ]
}

impl<'a> Cx<'a> {
    fn fam_op(&mut self, fam: &Fam, kind: &str) -> R {
        let (reg, mm) = (fam.reg, fam.model);
        let label = self.op.clone();
        match kind {
            "read" | "read_raw" => {
                let typed = kind == "read";
                let Some(f) = (if typed { fam.read } else { fam.read_raw }) else { return Ok(()) };
                let out = call(&label, fam.mon, f).map(|v| vec![v]);
                let p = self.prior(reg, &out)?;
                self.class |= ((p & !mm != 0) as u64) << 1;
                let want = if typed { p & mm } else { p };
                self.finish(out, Exp::new(vec![ev_read(reg, p)], Some(vec![want])))
            }
            "write" => {
                let Some(f) = fam.write else { return Ok(()) };
                let v = self.u("v") & mm;
                let out = call(&label, fam.mon && fam.rmw, || f(v)).map(|_| vec![]);
                let p = self.prior(reg, &out)?;
                self.class |= ((p & !mm != 0) as u64) << 1;
                if !(fam.valid)(v) {
                    self.class |= 1 << 2;
                    return self.finish(out, Exp::rejected(None, true));
                }
                let exp = if fam.rmw {
                    let nv = (p & !mm) | v;
                    self.m.put(reg, nv);
                    Exp::new(vec![ev_read(reg, p), ev_write(reg, nv)], Some(vec![]))
                } else {
                    self.m.put(reg, v);
                    Exp::new(vec![ev_write(reg, v)], Some(vec![]))
                };
                self.finish(out, exp)
            }
            "write_raw" => {
                let Some(f) = fam.write_raw else { return Ok(()) };
                let v = self.u("v");
                let out = call(&label, false, || f(v)).map(|_| vec![]);
                let refused = self.m.put(reg, v);
                self.finish(out, Exp::new(vec![ev_write(reg, v)], Some(vec![])).fault(refused))
            }
            _ => {
                let Some(f) = fam.update else { return Ok(()) };
                let (and, xor) = (self.s["and"].as_u64().unwrap_or(!0), self.u("xor"));
                let mut seen: Option<u64> = None;
                let mut g = |cur: u64| {
                    seen = Some(cur);
                    ((cur & and) ^ xor) & mm
                };
                let out = call(&label, fam.mon, || f(&mut g));
                let out = out.map(|_| seen.into_iter().collect::<Vec<u64>>());
                let p = self.prior(reg, &out)?;
                self.class |= ((p & !mm != 0) as u64) << 1;
                let nv = (((p & mm) & and) ^ xor) & mm;
                if !(fam.valid)(nv) {
                    self.class |= 1 << 2;
                    return self.finish(out, Exp::rejected(None, true));
                }
                let full = if fam.rmw { (p & !mm) | nv } else { nv };
                self.m.put(reg, full);
                self.finish(out, Exp::new(vec![ev_read(reg, p), ev_write(reg, full)], Some(vec![p & mm])).collapse())
            }
        }
    }
}

// ---- individual wrappers ---------------------------------------------------------------------------

fn frame_of(a: u64) -> PhysFrame {
    PhysFrame::containing_address(PhysAddr::new_truncate(a))
}
fn page_of(a: u64) -> Page<Size4KiB> {
    Page::containing_address(VirtAddr::new_truncate(a))
}
fn fr(f: PhysFrame) -> u64 {
    f.start_address().as_u64()
}

impl<'a> Cx<'a> {
    fn control_op(&mut self) -> R {
        let label = self.op.clone();
        let cr3 = Reg::Cr(3);
        match label.as_str() {
            "cr2_read" | "cr2_read_raw" => {
                let typed = label == "cr2_read";
                let out = call(&label, false, || {
                    if typed {
                        match Cr2::read() {
                            Ok(a) => vec![1, a.as_u64()],
                            Err(e) => vec![0, e.0],
                        }
                    } else {
                        vec![Cr2::read_raw()]
                    }
                });
                let p = self.m.cr2;
                self.class |= (is_canon(p) as u64) << 1;
                let want = if typed { vec![is_canon(p) as u64, p] } else { vec![p] };
                self.finish(out, Exp::new(vec![ev_read(Reg::Cr(2), p)], Some(want)))
            }
            "cr3_read" | "cr3_read_raw" | "cr3_read_pcid" => {
                let out = call(&label, false, || match label.as_str() {
                    "cr3_read" => {
                        let (f, fl) = Cr3::read();
                        vec![fr(f), fl.bits()]
                    }
                    "cr3_read_raw" => {
                        let (f, v) = Cr3::read_raw();
                        vec![fr(f), v as u64]
                    }
                    _ => {
                        let (f, p) = Cr3::read_pcid();
                        vec![fr(f), p.value() as u64]
                    }
                });
                let p = self.m.cr3;
                let low = if label == "cr3_read" { p & CR3_FLAGS } else { p & 0xfff };
                self.class |= ((p & 0xfe7 != 0) as u64) << 1;
                self.finish(out, Exp::new(vec![ev_read(cr3, p)], Some(vec![p & ADDR52, low])))
            }
            "cr3_write" => {
                let (frame, f) = (self.u("frame") & ADDR52, self.u("f") & CR3_FLAGS);
                let out = call(&label, false, || unsafe { Cr3::write(frame_of(frame), Cr3Flags::from_bits_truncate(f)) }).map(|_| vec![]);
                let v = frame | f;
                self.m.put(cr3, v);
                self.finish(out, Exp::new(vec![ev_write(cr3, v)], Some(vec![])))
            }
            "cr3_write_raw" => {
                let (frame, val) = (self.u("frame") & ADDR52, self.u("v") & 0xffff);
                let out = call(&label, false, || unsafe { Cr3::write_raw(frame_of(frame), val as u16) }).map(|_| vec![]);
                let v = frame | val;
                self.m.put(cr3, v);
                self.finish(out, Exp::new(vec![ev_write(cr3, v)], Some(vec![])))
            }
            "cr3_write_pcid" | "cr3_write_pcid_nf" => {
                let nf = label == "cr3_write_pcid_nf";
                let (frame, pcid) = (self.u("frame") & ADDR52, self.u("pcid") & 0xffff);
                let out = call(&label, false, || match Pcid::new(pcid as u16) {
                    Err(_) => vec![0],
                    Ok(p) => {
                        unsafe {
                            if nf {
                                Cr3::write_pcid_no_flush(frame_of(frame), p)
                            } else {
                                Cr3::write_pcid(frame_of(frame), p)
                            }
                        }
                        vec![1, p.value() as u64]
                    }
                });
                if pcid >= 4096 {
                    self.class |= 1 << 2;
                    return self.finish(out, Exp::rejected(Some(vec![0]), false));
                }
                let v = ((nf as u64) << 63) | frame | pcid;
                // documented precondition of the no-flush form: CR4.PCIDE = 1
                let refused = self.m.put(cr3, v);
                self.finish(out, Exp::new(vec![ev_write(cr3, v)], Some(vec![1, pcid])).fault(refused))
            }
            "cr3_update" => {
                let fxor = self.u("fxor") & CR3_FLAGS;
                let nframe = self.has("frame").then(|| self.u("frame") & ADDR52);
                let mut seen = vec![];
                let out = call(&label, false, || unsafe {
                    Cr3::update(|f, fl| {
                        seen = vec![fr(*f), fl.bits()];
                        if let Some(a) = nframe {
                            *f = frame_of(a);
                        }
                        *fl = Cr3Flags::from_bits_truncate(fl.bits() ^ fxor);
                    })
                })
                .map(|_| seen);
                let p = self.m.cr3;
                let v = nframe.unwrap_or(p & ADDR52) | ((p & CR3_FLAGS) ^ fxor);
                self.m.put(cr3, v);
                self.finish(out, Exp::new(vec![ev_read(cr3, p), ev_write(cr3, v)], Some(vec![p & ADDR52, p & CR3_FLAGS])).collapse())
            }
            _ => {
                // cr3_update_pcid / cr3_update_pcid_nf
                let nf = label == "cr3_update_pcid_nf";
                let nframe = self.has("frame").then(|| self.u("frame") & ADDR52);
                let npcid = self.has("pcid").then(|| self.u("pcid") & 0xfff);
                let mut seen = vec![];
                let body = |f: &mut PhysFrame, pc: &mut Pcid| {
                    seen = vec![fr(*f), pc.value() as u64];
                    if let Some(a) = nframe {
                        *f = frame_of(a);
                    }
                    if let Some(n) = npcid {
                        *pc = Pcid::new(n as u16).unwrap();
                    }
                };
                let out = call(&label, false, || unsafe {
                    if nf {
                        Cr3::update_pcid_no_flush(body)
                    } else {
                        Cr3::update_pcid(body)
                    }
                })
                .map(|_| seen);
                let p = self.m.cr3;
                let v = ((nf as u64) << 63) | nframe.unwrap_or(p & ADDR52) | npcid.unwrap_or(p & 0xfff);
                let refused = self.m.put(cr3, v);
                self.finish(out, Exp::new(vec![ev_read(cr3, p), ev_write(cr3, v)], Some(vec![p & ADDR52, p & 0xfff])).collapse().fault(refused))
            }
        }
    }

    fn debug_op(&mut self) -> R {
        let label = self.op.clone();
        match label.as_str() {
            "dr_read" => {
                let n = (self.u("n") & 3) as u8;
                let out = call(&label, false, || {
                    vec![match n {
                        0 => Dr0::read(),
                        1 => Dr1::read(),
                        2 => Dr2::read(),
                        _ => Dr3::read(),
                    }]
                });
                let p = self.m.dr[n as usize];
                self.class |= (n as u64) << 4;
                self.finish(out, Exp::new(vec![ev_read(Reg::Dr(n), p)], Some(vec![p])))
            }
            "dr_write" => {
                let (n, v) = ((self.u("n") & 3) as u8, self.u("v"));
                let out = call(&label, false, || match n {
                    0 => Dr0::write(v),
                    1 => Dr1::write(v),
                    2 => Dr2::write(v),
                    _ => Dr3::write(v),
                })
                .map(|_| vec![]);
                self.m.put(Reg::Dr(n), v);
                self.class |= (n as u64) << 4;
                self.finish(out, Exp::new(vec![ev_write(Reg::Dr(n), v)], Some(vec![])))
            }
            "dr6_traps" => {
                let out = call(&label, false, || {
                    let v = Dr6::read();
                    (0..4u8).map(|n| v.contains(x86_64::registers::debug::Dr6Flags::trap(DebugAddressRegisterNumber::new(n).unwrap())) as u64).collect::<Vec<u64>>()
                });
                let p = self.m.dr[6];
                self.finish(out, Exp::new(vec![ev_read(Reg::Dr(6), p)], Some((0..4).map(|n| p >> n & 1).collect())))
            }
            "dr7_read_fields" => {
                let out = call(&label, false, || {
                    let v = Dr7::read();
                    let mut r = vec![v.flags().bits()];
                    for n in 0..4 {
                        let k = DebugAddressRegisterNumber::new(n).unwrap();
                        r.push(v.condition(k) as u64);
                        r.push(v.size(k) as u64);
                    }
                    r
                });
                let p = self.m.dr[7];
                let mut want = vec![p & DR7_FLAGS];
                for n in 0..4 {
                    want.push((p >> (16 + 4 * n)) & 3);
                    want.push((p >> (18 + 4 * n)) & 3);
                }
                self.finish(out, Exp::new(vec![ev_read(Reg::Dr(7), p)], Some(want)))
            }
            _ => {
                // dr7_write_fields: flags, cond[4] (R/W encodings), size[4] (LEN encodings)
                let flags = self.u("flags") & DR7_FLAGS;
                let get4 = |k: &str| -> [u64; 4] {
                    let mut o = [0u64; 4];
                    for (n, x) in o.iter_mut().enumerate() {
                        *x = self.s[k][n].as_u64().unwrap_or(0) & 3;
                    }
                    o
                };
                let (cond, size) = (get4("cond"), get4("size"));
                let helpers = self.s["helpers"].as_bool().unwrap_or(false);
                let out = call(&label, false, || {
                    let mut v = if helpers {
                        // the same value assembled with the per-register helpers and flag editors
                        let mut v = Dr7Value::from_bits(0).unwrap();
                        for n in 0..4u8 {
                            let k = DebugAddressRegisterNumber::new(n).unwrap();
                            if flags >> (2 * n) & 1 != 0 {
                                v.insert_flags(Dr7Flags::local_breakpoint_enable(k));
                            }
                            v.set_flags(Dr7Flags::global_breakpoint_enable(k), flags >> (2 * n + 1) & 1 != 0);
                        }
                        v.toggle_flags(Dr7Flags::from_bits_truncate(flags & !0xff));
                        v.insert_flags(Dr7Flags::GENERAL_DETECT_ENABLE);
                        if flags & Dr7Flags::GENERAL_DETECT_ENABLE.bits() == 0 {
                            v.remove_flags(Dr7Flags::GENERAL_DETECT_ENABLE);
                        }
                        v
                    } else {
                        Dr7Value::from(Dr7Flags::from_bits_truncate(flags))
                    };
                    for n in 0..4u8 {
                        let k = DebugAddressRegisterNumber::new(n).unwrap();
                        // R/W: 00 execute, 01 write, 10 I/O, 11 read/write; LEN: 00 1 byte, 01 2, 10 8, 11 4
                        v.set_condition(k, [BreakpointCondition::InstructionExecution, BreakpointCondition::DataWrites, BreakpointCondition::IoReadsWrites, BreakpointCondition::DataReadsWrites][cond[n as usize] as usize]);
                        v.set_size(k, BreakpointSize::new([1usize, 2, 8, 4][size[n as usize] as usize]).unwrap());
                    }
                    Dr7::write(v);
                })
                .map(|_| vec![]);
                let p = self.m.dr[7];
                let mut nv = (p & !DR7_VALID) | flags;
                for n in 0..4 {
                    nv |= cond[n] << (16 + 4 * n) | size[n] << (18 + 4 * n);
                }
                self.m.put(Reg::Dr(7), nv);
                self.finish(out, Exp::new(vec![ev_read(Reg::Dr(7), p), ev_write(Reg::Dr(7), nv)], Some(vec![])))
            }
        }
    }

    fn msr_op(&mut self) -> R {
        let label = self.op.clone();
        match label.as_str() {
            "msr_read" => {
                let idx = self.u("idx") as u32;
                let out = call(&label, false, || vec![unsafe { Msr::new(idx).read() }]);
                let p = self.prior(Reg::Msr(idx), &out)?;
                self.class |= ((p >> 32 != 0) as u64) << 1;
                self.finish(out, Exp::new(vec![ev_read(Reg::Msr(idx), p)], Some(vec![p])))
            }
            "msr_write" => {
                let idx = self.u("idx") as u32;
                let v = sanitize_msr(idx, self.u("v"));
                let out = call(&label, false, || unsafe { Msr::new(idx).write(v) }).map(|_| vec![]);
                let refused = self.m.put(Reg::Msr(idx), v);
                self.class |= ((v >> 32 != 0) as u64) << 1;
                self.finish(out, Exp::new(vec![ev_write(Reg::Msr(idx), v)], Some(vec![])).fault(refused))
            }
            "base_read" | "lstar_read" => {
                let which = self.u("which") % 3;
                let idx = if label == "lstar_read" { MSR_LSTAR } else { MSR_FS_BASE + which as u32 };
                let konst = self.s["konst"].as_bool().unwrap_or(false);
                let out = call(&label, false, || {
                    vec![match idx {
                        MSR_LSTAR => LStar::read().as_u64(),
                        MSR_FS_BASE if konst => unsafe { <FS as Segment64>::BASE.read() },
                        MSR_GS_BASE if konst => unsafe { <GS as Segment64>::BASE.read() },
                        MSR_FS_BASE => FsBase::read().as_u64(),
                        MSR_GS_BASE => GsBase::read().as_u64(),
                        _ => KernelGsBase::read().as_u64(),
                    }]
                });
                let p = self.prior(Reg::Msr(idx), &out)?;
                self.class |= which << 4;
                self.finish(out, Exp::new(vec![ev_read(Reg::Msr(idx), p)], Some(vec![p])))
            }
            "base_write" | "lstar_write" => {
                let which = self.u("which") % 3;
                let idx = if label == "lstar_write" { MSR_LSTAR } else { MSR_FS_BASE + which as u32 };
                let a = canon(self.u("addr"));
                let konst = self.s["konst"].as_bool().unwrap_or(false);
                let out = call(&label, false, || {
                    let va = VirtAddr::new(a);
                    match idx {
                        MSR_LSTAR => LStar::write(va),
                        MSR_FS_BASE if konst => unsafe {
                            let mut m = <FS as Segment64>::BASE;
                            m.write(a)
                        },
                        MSR_GS_BASE if konst => unsafe {
                            let mut m = <GS as Segment64>::BASE;
                            m.write(a)
                        },
                        MSR_FS_BASE => FsBase::write(va),
                        MSR_GS_BASE => GsBase::write(va),
                        _ => KernelGsBase::write(va),
                    }
                })
                .map(|_| vec![]);
                self.m.put(Reg::Msr(idx), a);
                self.class |= which << 4;
                self.finish(out, Exp::new(vec![ev_write(Reg::Msr(idx), a)], Some(vec![])))
            }
            "star_read" | "star_read_raw" => {
                let typed = label == "star_read";
                let out = call(&label, false, || {
                    if typed {
                        let (a, b, c, d) = Star::read();
                        vec![a.0 as u64, b.0 as u64, c.0 as u64, d.0 as u64]
                    } else {
                        let (a, b) = Star::read_raw();
                        vec![a as u64, b as u64]
                    }
                });
                let p = *self.m.msr.get(&MSR_STAR).unwrap_or(&0);
                let (sysret, syscall) = (p >> 48, (p >> 32) & 0xffff);
                // SYSRET: CS = STAR[63:48] + 16, SS = STAR[63:48] + 8; SYSCALL: CS = STAR[47:32], SS = + 8 (16-bit selectors)
                let want = if typed { vec![(sysret + 16) & 0xffff, (sysret + 8) & 0xffff, syscall, (syscall + 8) & 0xffff] } else { vec![sysret, syscall] };
                self.class |= ((p & 0xffff_ffff != 0) as u64) << 1;
                self.finish(out, Exp::new(vec![ev_read(Reg::Msr(MSR_STAR), p)], Some(want)))
            }
            "star_write_raw" => {
                let (sysret, syscall) = (self.u("sysret") & 0xffff, self.u("syscall") & 0xffff);
                let out = call(&label, false, || unsafe { Star::write_raw(sysret as u16, syscall as u16) }).map(|_| vec![]);
                let v = sysret << 48 | syscall << 32;
                self.m.put(Reg::Msr(MSR_STAR), v);
                self.finish(out, Exp::new(vec![ev_write(Reg::Msr(MSR_STAR), v)], Some(vec![])))
            }
            _ => {
                // star_write: cs_sysret ss_sysret cs_syscall ss_syscall
                let s: Vec<u64> = ["a", "b", "c", "d"].iter().map(|k| self.u(k) & 0xffff).collect();
                let out = call(&label, false, || match Star::write(SegmentSelector(s[0] as u16), SegmentSelector(s[1] as u16), SegmentSelector(s[2] as u16), SegmentSelector(s[3] as u16)) {
                    Ok(()) => vec![0],
                    Err(e) => vec![match format!("{e:?}").as_str() {
                        "SysretOffset" => 1,
                        "SyscallOffset" => 2,
                        "SysretPrivilegeLevel" => 3,
                        "SyscallPrivilegeLevel" => 4,
                        _ => 9,
                    }],
                });
                // documented rejections, in plain integer arithmetic
                let (a, b, c, d) = (s[0] as i64, s[1] as i64, s[2] as i64, s[3] as i64);
                let mut bad = vec![];
                if a - 16 != b - 8 {
                    bad.push(1u64);
                }
                if c != d - 8 {
                    bad.push(2);
                }
                if b & 3 != 3 {
                    bad.push(3);
                }
                if d & 3 != 0 {
                    bad.push(4);
                }
                if !bad.is_empty() {
                    self.class |= bad[0] << 4 | 1 << 2;
                    if let Ok(got) = &out.r {
                        if got.len() != 1 || !bad.contains(&got[0]) {
                            let tr = out.trace.clone();
                            let got = got.clone();
                            let _ = self.finish(out, Exp::rejected(None, false));
                            return Err(self.fail("rejection-kind", format!("selectors {s:x?} violate documented rule(s) {bad:?} (1 sysret offset, 2 syscall offset, 3 sysret RPL, 4 syscall RPL); result code {got:?} (0 = Ok), trace {tr:x?}")));
                        }
                    }
                    return self.finish(out, Exp::rejected(None, false));
                }
                let v = (((b - 8) as u64) & 0xffff) << 48 | (c as u64) << 32;
                self.m.put(Reg::Msr(MSR_STAR), v);
                self.finish(out, Exp::new(vec![ev_write(Reg::Msr(MSR_STAR), v)], Some(vec![0])))
            }
        }
    }

    fn cet_pat_apic_op(&mut self) -> R {
        let label = self.op.clone();
        let sup = self.u("s") & 1 != 0;
        let cet = Reg::Msr(if sup { MSR_S_CET } else { MSR_U_CET });
        let apic = Reg::Msr(MSR_APIC_BASE);
        match label.as_str() {
            "cet_read" => {
                let out = call(&label, false, || {
                    let (f, p) = if sup { SCet::read() } else { UCet::read() };
                    vec![f.bits(), p.start_address().as_u64()]
                });
                let p = self.m.get(cet).unwrap_or(0);
                self.class |= (sup as u64) << 4;
                self.finish(out, Exp::new(vec![ev_read(cet, p)], Some(vec![p & CET_FLAGS, p & !0xfff])))
            }
            "cet_write" => {
                let (f, page) = (self.u("f") & CET_FLAGS, canon(self.u("page")) & !0xfff);
                let out = call(&label, false, || {
                    let (fl, pg) = (CetFlags::from_bits_truncate(f), page_of(page));
                    if sup {
                        SCet::write(fl, pg)
                    } else {
                        UCet::write(fl, pg)
                    }
                })
                .map(|_| vec![]);
                let v = f | page;
                self.m.put(cet, v);
                self.class |= (sup as u64) << 4;
                self.finish(out, Exp::new(vec![ev_write(cet, v)], Some(vec![])))
            }
            "cet_update" => {
                let fxor = self.u("fxor") & CET_FLAGS;
                let npage = self.has("page").then(|| canon(self.u("page")) & !0xfff);
                let mut seen = vec![];
                let body = |f: &mut CetFlags, p: &mut Page| {
                    seen = vec![f.bits(), p.start_address().as_u64()];
                    *f = CetFlags::from_bits_truncate(f.bits() ^ fxor);
                    if let Some(a) = npage {
                        *p = page_of(a);
                    }
                };
                let out = call(&label, false, || if sup { SCet::update(body) } else { UCet::update(body) }).map(|_| seen);
                let p = self.m.get(cet).unwrap_or(0);
                let v = ((p & CET_FLAGS) ^ fxor) | npage.unwrap_or(p & !0xfff);
                self.m.put(cet, v);
                self.finish(out, Exp::new(vec![ev_read(cet, p), ev_write(cet, v)], Some(vec![p & CET_FLAGS, p & !0xfff])).collapse())
            }
            "pat_read" => {
                let out = call(&label, false, || Pat::read().iter().map(|t| t.bits() as u64).collect::<Vec<u64>>());
                let p = self.m.get(Reg::Msr(MSR_PAT)).unwrap_or(0);
                let want = (0..8).map(|k| (p >> (8 * k)) & 0xff).collect();
                self.finish(out, Exp::new(vec![ev_read(Reg::Msr(MSR_PAT), p)], Some(want)))
            }
            "pat_write" => {
                let default = self.s["default"].as_bool().unwrap_or(false);
                let mut codes = [0u8; 8];
                for (k, c) in codes.iter_mut().enumerate() {
                    let x = self.s["t"][k].as_u64().unwrap_or(0) as u8;
                    *c = if PAT_CODES.contains(&x) { x } else { 0 };
                }
                let out = call(&label, false, || unsafe {
                    if default {
                        Pat::write(Pat::DEFAULT)
                    } else {
                        Pat::write(codes.map(|c| PatMemoryType::from_bits(c).unwrap()))
                    }
                })
                .map(|_| vec![]);
                // PA0 is the least significant byte
                let v = if default { PAT_DEFAULT } else { codes.iter().enumerate().fold(0u64, |a, (k, c)| a | (*c as u64) << (8 * k)) };
                self.m.put(Reg::Msr(MSR_PAT), v);
                self.class |= (default as u64) << 4;
                self.finish(out, Exp::new(vec![ev_write(Reg::Msr(MSR_PAT), v)], Some(vec![])))
            }
            "apic_read" | "apic_read_raw" => {
                let typed = label == "apic_read";
                let out = call(&label, false, || {
                    if typed {
                        let (f, fl) = ApicBase::read();
                        vec![fr(f), fl.bits()]
                    } else {
                        let (f, raw) = ApicBase::read_raw();
                        vec![fr(f), raw]
                    }
                });
                let p = self.m.get(apic).unwrap_or(0);
                self.finish(out, Exp::new(vec![ev_read(apic, p)], Some(vec![p & ADDR52, if typed { p & APIC_FLAGS } else { p }])))
            }
            "apic_write" => {
                let (frame, f) = (self.u("frame") & ADDR52, self.u("f") & APIC_FLAGS);
                let out = call(&label, false, || unsafe { ApicBase::write(frame_of(frame), ApicBaseFlags::from_bits_truncate(f)) }).map(|_| vec![]);
                let p = self.m.get(apic).unwrap_or(0);
                // the typed value models the base (bits 12..51) and the three flags
                let v = (p & !(ADDR52 | APIC_FLAGS)) | frame | f;
                self.m.put(apic, v);
                self.class |= ((p & ADDR52 & !frame != 0) as u64) << 1;
                self.finish(out, Exp::new(vec![ev_read(apic, p), ev_write(apic, v)], Some(vec![])))
            }
            _ => {
                let (frame, raw) = (self.u("frame") & ADDR52, self.u("v"));
                let out = call(&label, false, || unsafe { ApicBase::write_raw(frame_of(frame), raw) }).map(|_| vec![]);
                let v = raw | frame;
                self.m.put(apic, v);
                self.finish(out, Exp::new(vec![ev_write(apic, v)], Some(vec![])))
            }
        }
    }
}

impl<'a> Cx<'a> {
    fn seg_op(&mut self) -> R {
        let label = self.op.clone();
        match label.as_str() {
            "seg_get" => {
                let sreg = (self.u("seg") % 6) as u8;
                let out = call(&label, true, || match sreg {
                    0 => ES::get_reg().0,
                    1 => CS::get_reg().0,
                    2 => SS::get_reg().0,
                    3 => DS::get_reg().0,
                    4 => FS::get_reg().0,
                    _ => GS::get_reg().0,
                })
                .map(|v| vec![v as u64]);
                let p = self.m.sel[sreg as usize];
                self.class |= (sreg as u64) << 4;
                self.finish(out, Exp::new(vec![Ev::ReadSreg { sreg, val: p }], Some(vec![p as u64])))
            }
            "seg_set" => {
                let (sreg, sel) = ((self.u("seg") % 6) as u8, self.u("sel") as u16);
                let built = self.s["built"].as_bool().unwrap_or(false);
                // (a selector built from index and RPL cannot name the LDT)
                let sel = if built { sel & !4 } else { sel };
                // a raw selector (TI bit included) whose RPL is replaced afterwards
                let rerpl = self.s["rerpl"].as_u64().map(|r| (r & 3) as u16);
                let raw_first = sel;
                let sel = match rerpl {
                    Some(r) if !built => (sel & !3) | r,
                    _ => sel,
                };
                let out = call(&label, true, || unsafe {
                    let s = if built {
                        // index + RPL through the constructor and the RPL setter (TI stays 0)
                        let mut s = SegmentSelector::new(sel >> 3, x86_64::PrivilegeLevel::Ring0);
                        s.set_rpl(x86_64::PrivilegeLevel::from_u16(sel & 3));
                        s
                    } else if let Some(r) = rerpl {
                        let mut s = SegmentSelector(raw_first);
                        s.set_rpl(x86_64::PrivilegeLevel::from_u16(r));
                        s
                    } else {
                        SegmentSelector(sel)
                    };
                    match sreg {
                        0 => ES::set_reg(s),
                        1 => CS::set_reg(s),
                        2 => SS::set_reg(s),
                        3 => DS::set_reg(s),
                        4 => FS::set_reg(s),
                        _ => GS::set_reg(s),
                    }
                })
                .map(|_| vec![]);
                let ok = seg_load_ok(self.gdt, sreg, sel, self.m.cpl);
                if ok {
                    self.m.sel[sreg as usize] = sel;
                    match sreg {
                        1 => self.m.cpl = (sel & 3) as u8,
                        // the base loaded with the selector differs between vendors for a null selector
                        4 => self.m.base[0] = None,
                        5 => self.m.base[1] = None,
                        _ => {}
                    }
                }
                self.class |= (sreg as u64) << 4 | (ok as u64) << 1;
                if sreg == 1 {
                    // far return: the popped CS image is the zero-extended selector; the return address is a host address
                    let core: Vec<&Ev> = out.trace.iter().filter(|e| !matches!(e, Ev::Fault { .. })).collect();
                    let good = core.len() == 1 && matches!(core[0], Ev::Retfq { cs, .. } if *cs == sel as u64);
                    if !good {
                        let shown: Vec<String> = out.trace.iter().map(|e| if let Ev::Retfq { cs, .. } = e { format!("Retfq {{ cs: {cs:#x} }}") } else { format!("{e:x?}") }).collect();
                        return Err(self.fail("trace", format!("executed {shown:?}, the reference expects exactly one far return with CS image {sel:#x}")));
                    }
                    let mut o = out;
                    o.trace.retain(|e| matches!(e, Ev::Fault { .. }));
                    return self.finish(o, Exp::new(vec![], Some(vec![])).fault(!ok));
                }
                self.finish(out, Exp::new(vec![Ev::WriteSreg { sreg, val: sel }], Some(vec![])).fault(!ok))
            }
            "seg_read_base" => {
                let gs = self.u("gs") & 1 != 0;
                let out = call(&label, true, || if gs { GS::read_base() } else { FS::read_base() }.as_u64()).map(|v| vec![v]);
                let p = match (self.m.base[gs as usize], out.trace.first()) {
                    (Some(p), _) => p,
                    (None, Some(Ev::RdBase { gs: g, val })) if *g == gs => {
                        self.st.count("base_unknown_to_reference");
                        self.m.base[gs as usize] = Some(*val);
                        *val
                    }
                    _ => return Err(self.fail("trace", format!("expected rd{}base, executed {:x?}", if gs { "gs" } else { "fs" }, out.trace))),
                };
                self.class |= (gs as u64) << 4;
                self.finish(out, Exp::new(vec![Ev::RdBase { gs, val: p }], Some(vec![p])))
            }
            "seg_write_base" => {
                let (gs, a) = (self.u("gs") & 1 != 0, canon(self.u("addr")));
                let out = call(&label, true, || unsafe {
                    let va = VirtAddr::new_truncate(a);
                    if gs {
                        GS::write_base(va)
                    } else {
                        FS::write_base(va)
                    }
                })
                .map(|_| vec![]);
                self.m.base[gs as usize] = Some(a);
                self.class |= (gs as u64) << 4;
                self.finish(out, Exp::new(vec![Ev::WrBase { gs, val: a }], Some(vec![])))
            }
            "gs_swap" => {
                let out = call(&label, false, || unsafe { GS::swap() }).map(|_| vec![]);
                self.m.base.swap(1, 2);
                self.finish(out, Exp::new(vec![Ev::Swapgs], Some(vec![])))
            }
            _ => {
                // load_tss: only "executes ltr with exactly that selector" belongs to this property
                let sel = self.u("sel") as u16;
                let out = call(&label, false, || unsafe { load_tss(SegmentSelector(sel)) }).map(|_| vec![]);
                let ltrs: Vec<&Ev> = out.trace.iter().filter(|e| !matches!(e, Ev::Fault { .. })).collect();
                if ltrs.len() != 1 || *ltrs[0] != (Ev::Ltr { sel }) {
                    return Err(self.fail("trace", format!("executed {:x?}, the reference expects exactly Ltr {{ sel: {sel:#x} }}", out.trace)));
                }
                let mut o = out;
                o.trace.clear();
                self.finish(o, Exp::new(vec![], Some(vec![])))
            }
        }
    }

    fn rflags_op(&mut self) -> R {
        let label = self.op.clone();
        let expected_image = 2 | self.m.fl_sys | (self.m.iflag as u64) << 9;
        // the value pushfq delivered: arithmetic bits belong to the native register
        let pushed = |cx: &Cx, tr: &[Ev]| -> Result<u64, Violation> {
            match tr.first() {
                Some(Ev::Pushfq { val }) if val & !RFLAGS_ARITH == expected_image => Ok(*val),
                _ => Err(cx.fail("trace", format!("expected pushfq delivering system flags {expected_image:#x}, executed {tr:x?}"))),
            }
        };
        match label.as_str() {
            "rflags_read" | "rflags_read_raw" => {
                let typed = label == "rflags_read";
                let out = call(&label, true, || if typed { rflags::read().bits() } else { rflags::read_raw() }).map(|v| vec![v]);
                if out.r.is_err() || out.overrun {
                    return self.finish(out, Exp::new(vec![], None));
                }
                let p = pushed(self, &out.trace)?;
                self.finish(out, Exp::new(vec![Ev::Pushfq { val: p }], Some(vec![if typed { p & RFLAGS_ALL } else { p }])))
            }
            "rflags_update" => {
                // update = typed read, closure, typed write (which reads again to keep the reserved bits)
                let x = self.u("xor") & RFLAGS_ARG_SAFE;
                let mut seen = 0u64;
                let out = call(&label, true, || unsafe {
                    rflags::update(|f| {
                        seen = f.bits();
                        *f = RFlags::from_bits_truncate(f.bits() ^ x);
                    })
                })
                .map(|_| vec![]);
                if out.r.is_err() || out.overrun {
                    return self.finish(out, Exp::new(vec![], None));
                }
                let a = pushed(self, &out.trace)?;
                let reads: Vec<u64> = out.trace.iter().filter_map(|e| if let Ev::Pushfq { val } = e { Some(*val) } else { None }).collect();
                let b = *reads.last().unwrap_or(&a);
                if b & !RFLAGS_ARITH != expected_image || reads.len() > 2 {
                    return Err(self.fail("trace", format!("expected at most two reads of RFLAGS delivering system flags {expected_image:#x}, executed {:x?}", out.trace)));
                }
                if seen != a & RFLAGS_ALL {
                    return Err(self.fail("return-value", format!("the closure of update saw {seen:#x}; the register read {a:#x}, whose modelled bits are {:#x}", a & RFLAGS_ALL)));
                }
                let nv = (b & !RFLAGS_ALL) | ((a & RFLAGS_ALL) ^ x);
                self.m.iflag = nv & 0x200 != 0;
                self.m.fl_sys = nv & RFLAGS_SYS_SAFE;
                let mut evs: Vec<Ev> = reads.iter().map(|v| Ev::Pushfq { val: *v }).collect();
                evs.push(Ev::Popfq { val: nv });
                self.finish(out, Exp::new(evs, Some(vec![])))
            }
            "rflags_write" => {
                let f = self.u("f") & RFLAGS_ARG_SAFE;
                let out = call(&label, true, || unsafe { rflags::write(RFlags::from_bits_truncate(f)) }).map(|_| vec![]);
                if out.r.is_err() || out.overrun {
                    return self.finish(out, Exp::new(vec![], None));
                }
                let p = pushed(self, &out.trace)?;
                let nv = (p & !RFLAGS_ALL) | f;
                self.m.iflag = nv & 0x200 != 0;
                self.m.fl_sys = nv & RFLAGS_SYS_SAFE;
                self.finish(out, Exp::new(vec![Ev::Pushfq { val: p }, Ev::Popfq { val: nv }], Some(vec![])))
            }
            _ => {
                let v = (self.u("v") & RFLAGS_ARG_SAFE) | 2;
                let out = call(&label, true, || unsafe { rflags::write_raw(v) }).map(|_| vec![]);
                self.m.iflag = v & 0x200 != 0;
                self.m.fl_sys = v & RFLAGS_SYS_SAFE;
                self.finish(out, Exp::new(vec![Ev::Popfq { val: v }], Some(vec![])))
            }
        }
    }

    /// Several wrapper calls on ONE register inside one function: read, write, read, write, read
    /// (and reads of the GS bases around `swapgs`).  Every read must be executed again and deliver
    /// what the preceding write stored - a register read is not a pure function.
    fn compound_op(&mut self) -> R {
        let label = self.op.clone();
        if label == "gs_swap_reads" {
            let (Some(g), Some(k)) = (self.m.base[1], self.m.base[2]) else { return Ok(()) };
            let out = call(&label, false, || {
                let a = GsBase::read().as_u64();
                let ka = KernelGsBase::read().as_u64();
                unsafe { GS::swap() };
                let b = GsBase::read().as_u64();
                let kb = KernelGsBase::read().as_u64();
                vec![a, ka, b, kb]
            });
            self.m.base.swap(1, 2);
            let (rg, rk) = (Reg::Msr(MSR_GS_BASE), Reg::Msr(MSR_KGS_BASE));
            return self.finish(out, Exp::new(vec![ev_read(rg, g), ev_read(rk, k), Ev::Swapgs, ev_read(rg, k), ev_read(rk, g)], Some(vec![g, k, k, g])));
        }
        let t = self.u("t");
        let (x1, x2) = (self.u("v1"), self.u("v2"));
        let idx = MSR_CHOICES_PLAIN[(self.u("idx") as usize) % MSR_CHOICES_PLAIN.len()];
        let dn = (self.u("n") % 4) as u8;
        // (register, first value, second value)
        let (reg, v1, v2): (Reg, u64, u64) = match t {
            0 => {
                let f = |v: u64| if matches!(idx, MSR_LSTAR | MSR_CSTAR | MSR_FS_BASE | MSR_GS_BASE | MSR_KGS_BASE) { canon(v) } else { sanitize_msr(idx, v) };
                (Reg::Msr(idx), f(x1), f(x2))
            }
            1 => (Reg::Msr(MSR_KGS_BASE), canon(x1), canon(x2)),
            2 => (Reg::Msr(MSR_LSTAR), canon(x1), canon(x2)),
            3 => (Reg::Msr(MSR_FS_BASE), canon(x1), canon(x2)),
            4 => (Reg::Msr(MSR_GS_BASE), canon(x1), canon(x2)),
            5 => (Reg::Cr(3), x1 & 0x000f_ffff_ffff_ffff, x2 & 0x000f_ffff_ffff_ffff),
            6 => (Reg::Dr(dn), x1, x2),
            7 => (Reg::Msr(MSR_SFMASK), x1 & RFLAGS_ALL, x2 & RFLAGS_ALL),
            8 => (Reg::Msr(MSR_STAR), x1 & 0xffff_ffff_0000_0000, x2 & 0xffff_ffff_0000_0000),
            // flag registers through the raw accessors: one harmless bit toggled, then restored
            9 | 10 | 11 => {
                let (reg, bit) = match t {
                    9 => (Reg::Cr(0), 8u64),
                    10 => (Reg::Cr(4), 4),
                    _ => (Reg::Msr(MSR_EFER), 1),
                };
                let p = self.m.get(reg).unwrap_or(0);
                (reg, p ^ bit, if x2 & 1 != 0 { p } else { p ^ bit })
            }
            _ => return Ok(()),
        };
        let Some(p) = self.m.get(reg) else { return Ok(()) };
        // what the typed reader shows of arbitrary prior contents
        let rmask = match t {
            7 => RFLAGS_ALL,
            8 => 0xffff_ffff_0000_0000,
            _ => !0,
        };
        let rd = move || -> u64 {
            match t {
                0 => unsafe { Msr::new(idx).read() },
                1 => KernelGsBase::read().as_u64(),
                2 => LStar::read().as_u64(),
                3 => FsBase::read().as_u64(),
                4 => GsBase::read().as_u64(),
                5 => {
                    let (f, v) = Cr3::read_raw();
                    fr(f) | v as u64
                }
                6 => match dn {
                    0 => Dr0::read(),
                    1 => Dr1::read(),
                    2 => Dr2::read(),
                    _ => Dr3::read(),
                },
                7 => SFMask::read().bits(),
                8 => {
                    let (a, b) = Star::read_raw();
                    (a as u64) << 48 | (b as u64) << 32
                }
                9 => Cr0::read_raw(),
                10 => Cr4::read_raw(),
                _ => Efer::read_raw(),
            }
        };
        let wr = move |v: u64| unsafe {
            match t {
                0 => Msr::new(idx).write(v),
                1 => KernelGsBase::write(VirtAddr::new(v)),
                2 => LStar::write(VirtAddr::new(v)),
                3 => FsBase::write(VirtAddr::new(v)),
                4 => GsBase::write(VirtAddr::new(v)),
                5 => Cr3::write_raw(frame_of(v & !0xfff), (v & 0xfff) as u16),
                6 => match dn {
                    0 => Dr0::write(v),
                    1 => Dr1::write(v),
                    2 => Dr2::write(v),
                    _ => Dr3::write(v),
                },
                7 => SFMask::write(RFlags::from_bits_truncate(v)),
                8 => Star::write_raw((v >> 48) as u16, (v >> 32) as u16),
                9 => Cr0::write_raw(v),
                10 => Cr4::write_raw(v),
                _ => Efer::write_raw(v),
            }
        };
        let out = call(&label, false, || {
            let a = rd();
            wr(v1);
            let b = rd();
            wr(v2);
            let c = rd();
            vec![a, b, c]
        });
        self.m.put(reg, v1);
        self.m.put(reg, v2);
        self.class |= t << 4;
        self.finish(out, Exp::new(vec![ev_read(reg, p), ev_write(reg, v1), ev_read(reg, v1), ev_write(reg, v2), ev_read(reg, v2)], Some(vec![p & rmask, v1, v2])))
    }

    /// MXCSR is an unprivileged register: the wrappers run natively on the real one.  The harness
    /// loads seeded prior contents and reads the result with its own `ldmxcsr`/`stmxcsr`, and puts
    /// the default back before any of its own floating-point code can run.
    fn mxcsr_op(&mut self) -> R {
        use x86_64::registers::mxcsr::{self, MxCsr};
        let prior = (self.u("p") & 0xffff) as u32;
        let v = (self.u("v") & 0xffff) as u32;
        let (and, xor) = ((self.s["and"].as_u64().unwrap_or(!0) & 0xffff) as u32, (self.u("xor") & 0xffff) as u32);
        let kind = self.u("kind") % 3;
        let label = self.op.clone();
        let out = call(&label, false, || {
            let mut after: u32 = 0;
            let mut ret: u32 = 0;
            let mut seen: u32 = 0;
            unsafe {
                core::arch::asm!("ldmxcsr [{}]", in(reg) &prior, options(nostack, readonly));
                match kind {
                    0 => ret = mxcsr::read().bits(),
                    1 => mxcsr::write(MxCsr::from_bits_truncate(v)),
                    _ => mxcsr::update(|f| {
                        seen = f.bits();
                        *f = MxCsr::from_bits_truncate((f.bits() & and) ^ xor);
                    }),
                }
                core::arch::asm!("stmxcsr [{}]", in(reg) &mut after, options(nostack));
                let dflt: u32 = 0x1f80;
                core::arch::asm!("ldmxcsr [{}]", in(reg) &dflt, options(nostack, readonly));
            }
            vec![ret as u64, seen as u64, after as u64]
        });
        let want = match kind {
            0 => vec![prior as u64, 0, prior as u64],
            1 => vec![0, 0, v as u64],
            _ => vec![0, prior as u64, ((prior & and) ^ xor) as u64],
        };
        self.class |= kind << 4;
        self.finish(out, Exp::new(vec![], Some(want)))
    }

    fn step(&mut self, fams: &[Fam]) -> R {
        let op = self.op.clone();
        if let Some((name, kind)) = op.split_once('_') {
            if let Some(f) = fams.iter().find(|f| f.name == name) {
                if matches!(kind, "read" | "read_raw" | "write" | "write_raw" | "update") {
                    return self.fam_op(f, kind);
                }
            }
        }
        match op.as_str() {
            o if o.starts_with("cr2_") || o.starts_with("cr3_") => self.control_op(),
            "dr_read" | "dr_write" | "dr7_read_fields" | "dr7_write_fields" | "dr6_traps" => self.debug_op(),
            "msr_read" | "msr_write" | "base_read" | "base_write" | "lstar_read" | "lstar_write" | "star_read" | "star_read_raw" | "star_write" | "star_write_raw" => self.msr_op(),
            "cet_read" | "cet_write" | "cet_update" | "pat_read" | "pat_write" | "apic_read" | "apic_read_raw" | "apic_write" | "apic_write_raw" => self.cet_pat_apic_op(),
            "seg_get" | "seg_set" | "seg_read_base" | "seg_write_base" | "gs_swap" | "load_tss" => self.seg_op(),
            "rflags_read" | "rflags_read_raw" | "rflags_write" | "rflags_write_raw" | "rflags_update" => self.rflags_op(),
            "rwr" | "gs_swap_reads" => self.compound_op(),
            "mxcsr" => self.mxcsr_op(),
            _ => Ok(()),
        }
    }
}

pub fn run(rp: &Replay, st: &mut Stats) -> Option<Violation> {
    install_hook();
    let fams = families();
    let mut gdt: Vec<u64> = rp.config["gdt"].as_array().map(|a| a.iter().map(|v| v.as_u64().unwrap_or(0)).collect()).unwrap_or_default();
    gdt.truncate(64);
    if gdt.is_empty() {
        gdt.push(0);
    }
    let gdt = gdt.into_boxed_slice();
    let mut m = Model::from_config(&rp.config["prior"]);
    {
        let w = world();
        w.cpu = Cpu::default();
        w.mon_budget = 4000;
        w.cpu.gdtr = DtReg { base: gdt.as_ptr() as u64, limit: (gdt.len() * 8 - 1) as u16 };
        m.install(&mut w.cpu);
        w.cpu.trace.reserve(64);
    }
    let mut result = None;
    for (i, s) in rp.steps.iter().enumerate().take(64) {
        st.steps += 1;
        let op = s["op"].as_str().unwrap_or("").to_string();
        let op_id = op.bytes().fold(0u64, |a, b| a.wrapping_mul(131).wrapping_add(b as u64));
        let mut cx = Cx { i, op, s, m: &mut m, st: &mut *st, gdt: &gdt, class: 0 };
        let r = cx.step(&fams);
        let class = cx.class;
        if let Err(v) = r {
            result = Some(v);
            break;
        }
        if let Some(d) = m.diff(&world().cpu) {
            result = Some(viol(&["C16"], &format!("state-after/{}", s["op"].as_str().unwrap_or("")), i, format!("{} {}: {d}", s["op"].as_str().unwrap_or(""), s)));
            break;
        }
        st.distinct_key(&[op_id, class]);
        st.count(&format!("op:{}", s["op"].as_str().unwrap_or("?")));
    }
    let w = world();
    w.cpu.gdtr = DtReg::default();
    w.mon_budget = 400_000;
    result
}

// ---- generation ------------------------------------------------------------------------------------

/// (operation, weight) — trapped wrappers
const FAST_OPS: &[(&str, u32)] = &[
    ("cr0_read", 2), ("cr0_read_raw", 2), ("cr0_write", 4), ("cr0_write_raw", 2), ("cr0_update", 3),
    ("cr4_read", 2), ("cr4_read_raw", 2), ("cr4_write", 4), ("cr4_write_raw", 3), ("cr4_update", 3),
    ("cr2_read", 2), ("cr2_read_raw", 1),
    ("cr3_read", 2), ("cr3_read_raw", 2), ("cr3_read_pcid", 2), ("cr3_write", 3), ("cr3_write_raw", 2), ("cr3_write_pcid", 3),
    ("cr3_write_pcid_nf", 2), ("cr3_update", 2), ("cr3_update_pcid", 2), ("cr3_update_pcid_nf", 2),
    ("dr_read", 3), ("dr_write", 3), ("dr6_read", 1), ("dr6_read_raw", 1), ("dr6_traps", 1),
    ("dr7_read", 2), ("dr7_read_raw", 1), ("dr7_read_fields", 2), ("dr7_write", 3), ("dr7_write_fields", 3), ("dr7_write_raw", 2), ("dr7_update", 2),
    ("xcr0_write_raw", 2),
    ("msr_read", 3), ("msr_write", 3),
    ("efer_read", 2), ("efer_read_raw", 2), ("efer_write", 4), ("efer_write_raw", 2), ("efer_update", 3),
    ("base_read", 3), ("base_write", 4), ("lstar_read", 2), ("lstar_write", 2),
    ("star_read", 2), ("star_read_raw", 2), ("star_write", 5), ("star_write_raw", 2),
    ("sfmask_read", 2), ("sfmask_write", 2), ("sfmask_update", 2),
    ("cet_read", 2), ("cet_write", 3), ("cet_update", 2),
    ("pat_read", 2), ("pat_write", 3),
    ("apic_read", 2), ("apic_read_raw", 2), ("apic_write", 4), ("apic_write_raw", 2),
    ("gs_swap", 2), ("load_tss", 1),
    ("rwr", 8), ("gs_swap_reads", 2), ("mxcsr", 3),
];

/// wrappers whose instructions do not trap in ring 3: run under single-stepping
const MON_OPS: &[(&str, u32)] = &[
    ("xcr0_read", 2), ("xcr0_read_raw", 1), ("xcr0_write", 3), ("xcr0_update", 2),
    ("seg_get", 3), ("seg_set", 5), ("seg_read_base", 2), ("seg_write_base", 2),
    ("rflags_read", 2), ("rflags_read_raw", 1), ("rflags_write", 3), ("rflags_write_raw", 1), ("rflags_update", 2),
];

/// model-specific registers that hold whatever is written (after `sanitize_msr` / canonicalisation)
const MSR_CHOICES_PLAIN: [u32; 9] = [0x10, 0xC000_0103, 0x174, 0x1a0, MSR_LSTAR, MSR_CSTAR, MSR_KGS_BASE, MSR_FS_BASE, MSR_GS_BASE];

const MSR_CHOICES: [u32; 16] = [MSR_EFER, MSR_STAR, MSR_LSTAR, MSR_CSTAR, MSR_SFMASK, MSR_FS_BASE, MSR_GS_BASE, MSR_KGS_BASE, MSR_APIC_BASE, MSR_PAT, MSR_U_CET, MSR_S_CET, 0x10, 0xC000_0103, 0x174, 0x1a0];

fn any64(rng: &mut Rng) -> u64 {
    match rng.below(9) {
        // just outside the canonical halves: bit 47 set with bits 48..63 clear, and the mirror image
        8 => {
            let low = rng.next() & 0x7fff_ffff_ffff;
            if rng.chance(60) { 0x8000_0000_0000 | low } else { 0xffff_0000_0000_0000 | low }
        }
        0 => 0,
        1 => !0,
        2 => 1 << rng.below(64),
        3 => rng.next() & 0xffff_ffff,
        4 => canon(rng.next()),
        _ => rng.next(),
    }
}
/// a subset of the bits of `mask`
fn sub(rng: &mut Rng, mask: u64) -> u64 {
    match rng.below(6) {
        0 => 0,
        1 => mask,
        2 => {
            let bits: Vec<u32> = (0..64).filter(|b| mask >> b & 1 != 0).collect();
            if bits.is_empty() {
                0
            } else {
                1 << *rng.pick(&bits)
            }
        }
        _ => rng.next() & mask,
    }
}
fn addr(rng: &mut Rng) -> u64 {
    match rng.below(8) {
        0 => 0,
        1 => 0x0000_7fff_ffff_ffff,
        2 => 0xffff_8000_0000_0000,
        3 => !0,
        4 => canon(rng.next()) & !0xfff,
        _ => canon(rng.next()),
    }
}
fn frame(rng: &mut Rng) -> u64 {
    match rng.below(6) {
        0 => 0,
        1 => 0x1000,
        2 => ADDR52,
        3 => 0xfee0_0000,
        _ => rng.next() & ADDR52,
    }
}
fn low32(rng: &mut Rng, modelled: u64) -> u64 {
    match rng.below(5) {
        0 | 1 => sub(rng, modelled),
        _ => rng.next() & 0xffff_ffff,
    }
}
fn xcr0_value(rng: &mut Rng) -> u64 {
    let mut v = 1;
    if rng.chance(70) {
        v |= 2;
        if rng.chance(60) {
            v |= 4;
            if rng.chance(40) {
                v |= 0xe0;
            }
        }
    }
    if rng.chance(30) {
        v |= 0x18;
    }
    if rng.chance(30) {
        v |= 0x200;
    }
    if rng.chance(10) {
        v |= 1 << 62;
    }
    v
}
fn pat_table(rng: &mut Rng) -> Vec<u64> {
    (0..8).map(|_| *rng.pick(&PAT_CODES) as u64).collect()
}
fn cet_value(rng: &mut Rng) -> u64 {
    sanitize_msr(MSR_U_CET, sub(rng, CET_FLAGS) | (addr(rng) & !0xfff))
}
fn star_selectors(rng: &mut Rng) -> [u64; 4] {
    // [cs_sysret, ss_sysret, cs_syscall, ss_syscall]
    let ss_sysret = match rng.below(4) {
        0 => 0x1b,
        1 => 0xb,
        _ => ((rng.below(0x1ffd) + 1) << 3) | 3,
    };
    let cs_syscall = match rng.below(3) {
        0 => 8,
        _ => rng.below(0x1ffe) << 3,
    };
    let mut s = [ss_sysret + 8, ss_sysret, cs_syscall, cs_syscall + 8];
    match rng.below(12) {
        0 => s[0] = s[0].wrapping_add(*rng.pick(&[8, 0xfff8, 1, 16])) & 0xffff,
        1 => s[3] = s[3].wrapping_add(*rng.pick(&[8, 0xfff8, 16])) & 0xffff,
        2 => {
            // wrong RPL on the sysret pair (offsets still right)
            let d = rng.below(3);
            s[0] = (s[0] & !3) | d;
            s[1] = (s[1] & !3) | d;
        }
        3 => {
            let d = rng.range(1, 3);
            s[2] |= d;
            s[3] |= d;
        }
        4 => s = [rng.below(65536), rng.below(65536), rng.below(65536), rng.below(65536)],
        5 => s = [0xb, 3, 8, 16], // sysret base below 8
        6 => {
            // the bottom of the descriptor table, where `x - 8` / `x - 16` would go below zero:
            // every small sysret pair, right and wrong distances alike
            s[0] = rng.below(16) | if rng.chance(70) { 3 } else { 0 };
            s[1] = rng.below(8) | if rng.chance(70) { 3 } else { 0 };
            if rng.chance(30) {
                s[2] = rng.below(16);
                s[3] = rng.below(24);
            }
        }
        _ => {}
    }
    s
}

/// GDT of the run: null, kernel code 64, kernel data, user data, user code 64, conforming code,
/// not-present data, read-only data, execute-only code, data with a base, available TSS (2 slots),
/// code with L and D, 32-bit code.
fn make_gdt(rng: &mut Rng) -> Vec<u64> {
    let b = rng.next() & 0xffff_ffff;
    let mut g = vec![
        0,
        0x00af_9a00_0000_ffff,
        0x00cf_9200_0000_ffff,
        0x00cf_f200_0000_ffff,
        0x00af_fa00_0000_ffff,
        0x00af_9e00_0000_ffff,
        0x00cf_1200_0000_ffff,
        0x00cf_9000_0000_ffff,
        0x00af_9800_0000_ffff,
        0x00cf_9200_0000_ffff | (b & 0xff_ffff) << 16 | (b >> 24) << 56,
        0x0000_8900_1000_0067,
        0,
        0x00ef_9a00_0000_ffff,
        0x00cf_9a00_0000_ffff,
    ];
    for (k, d) in g.iter_mut().enumerate() {
        if k != 0 && k != 10 && k != 11 && rng.chance(50) {
            *d |= 1 << 40; // accessed
        }
    }
    g
}

fn seg_selector(rng: &mut Rng, sreg: u64) -> u64 {
    let idx = rng.below(16);
    if sreg == 1 {
        // far returns to an outer privilege level also switch stacks: not part of this property,
        // so RPL != 0 is generated only where the load is refused anyway
        let refused_anyway = matches!(idx, 0 | 2 | 3 | 6 | 7 | 9 | 10 | 11 | 14 | 15);
        return idx << 3 | if refused_anyway && rng.chance(30) { rng.below(4) } else { 0 };
    }
    let rpl = if rng.chance(70) { 0 } else { rng.below(4) };
    let ti = if rng.chance(4) { 4 } else { 0 };
    match rng.below(10) {
        0 => rpl, // null with any RPL
        1 | 2 => 0x10,
        3 => 0x18 | 3,
        _ => idx << 3 | ti | rpl,
    }
}

fn mk(rng: &mut Rng, op: &str, like: Option<&Value>) -> Value {
    let sel_arg = |rng: &mut Rng, k: &str, n: u64| -> u64 { like.and_then(|l| l[k].as_u64()).unwrap_or_else(|| rng.below(n)) };
    let (name, kind) = op.split_once('_').unwrap_or((op, ""));
    let fam_model = match name {
        "cr0" => Some(CR0_ALL),
        "cr4" => Some(CR4_ALL),
        "efer" => Some(EFER_ALL),
        "xcr0" => Some(XCR0_ALL),
        "dr7" => Some(DR7_VALID),
        "sfmask" => Some(RFLAGS_ALL),
        _ => None,
    };
    if let (Some(mm), true) = (fam_model, matches!(kind, "write" | "write_raw" | "update")) {
        return match kind {
            "write" => {
                let v = if name == "xcr0" && rng.chance(70) { xcr0_value(rng) } else { sub(rng, mm) };
                json!({"op": op, "v": v})
            }
            "write_raw" => {
                let v = match name {
                    "xcr0" => {
                        if rng.chance(70) {
                            xcr0_value(rng) | if rng.chance(20) { 0x6_0000 } else { 0 }
                        } else {
                            rng.next() & 0x2ff
                        }
                    }
                    "efer" => sub(rng, EFER_ALL | EFER_EXTRA),
                    _ => {
                        if rng.chance(12) {
                            any64(rng)
                        } else {
                            low32(rng, mm)
                        }
                    }
                };
                json!({"op": op, "v": v})
            }
            _ => {
                // new = (seen & and) ^ xor
                let (and, xor) = match rng.below(4) {
                    0 => (!0u64, sub(rng, mm)),       // toggle
                    1 => (!sub(rng, mm), 0),          // remove
                    2 => (0, if name == "xcr0" { xcr0_value(rng) } else { sub(rng, mm) }), // replace
                    _ => (!0u64, 0),                  // identity
                };
                json!({"op": op, "and": and, "xor": xor})
            }
        };
    }
    match op {
        "rwr" => {
            let t = rng.below(12);
            let (v1, v2) = match t {
                1..=4 => (addr(rng), addr(rng)),
                5 => (frame(rng) | rng.below(4096), frame(rng) | rng.below(4096)),
                _ => (any64(rng), any64(rng)),
            };
            json!({"op": op, "t": t, "idx": rng.below(9), "n": rng.below(4), "v1": v1, "v2": v2})
        }
        "gs_swap_reads" => json!({"op": op}),
        "mxcsr" => {
            let val = |rng: &mut Rng| match rng.below(4) {
                0 => 0x1f80,
                1 => 0x1f80 ^ (1u64 << rng.below(16)),
                _ => rng.below(1 << 16),
            };
            json!({"op": op, "kind": rng.below(3), "p": val(rng), "v": val(rng), "and": if rng.chance(50) { 0xffff } else { rng.below(1 << 16) }, "xor": if rng.chance(50) { 0 } else { rng.below(1 << 16) }})
        }
        "cr3_write" => json!({"op": op, "frame": frame(rng), "f": sub(rng, CR3_FLAGS)}),
        "cr3_write_raw" => json!({"op": op, "frame": frame(rng), "v": if rng.chance(80) { rng.below(4096) } else { rng.below(65536) }}),
        "cr3_write_pcid" | "cr3_write_pcid_nf" => {
            let pcid = match rng.below(8) {
                0 => 0,
                1 => 4095,
                2 => 4096,
                3 => rng.below(65536),
                _ => rng.below(4096),
            };
            json!({"op": op, "frame": frame(rng), "pcid": pcid})
        }
        "cr3_update" => {
            let mut s = json!({"op": op, "fxor": sub(rng, CR3_FLAGS)});
            if rng.chance(60) {
                s["frame"] = json!(frame(rng));
            }
            s
        }
        "cr3_update_pcid" | "cr3_update_pcid_nf" => {
            let mut s = json!({"op": op});
            if rng.chance(50) {
                s["frame"] = json!(frame(rng));
            }
            if rng.chance(60) {
                s["pcid"] = json!(rng.below(4096));
            }
            s
        }
        "dr_read" => json!({"op": op, "n": sel_arg(rng, "n", 4)}),
        "dr_write" => json!({"op": op, "n": rng.below(4), "v": any64(rng)}),
        "dr7_write_fields" => {
            let f4 = |rng: &mut Rng| -> Vec<u64> { (0..4).map(|_| rng.below(4)).collect() };
            json!({"op": op, "flags": sub(rng, DR7_FLAGS), "cond": f4(rng), "size": f4(rng), "helpers": rng.chance(40)})
        }
        "msr_read" => {
            let idx = like.and_then(|l| l["idx"].as_u64()).unwrap_or_else(|| if rng.chance(90) { *rng.pick(&MSR_CHOICES) as u64 } else { rng.next() & 0xffff_ffff });
            json!({"op": op, "idx": idx})
        }
        "msr_write" => {
            let idx = if rng.chance(90) { *rng.pick(&MSR_CHOICES) } else { rng.next() as u32 };
            let v = match idx {
                MSR_FS_BASE | MSR_GS_BASE | MSR_KGS_BASE | MSR_LSTAR | MSR_CSTAR => {
                    if rng.chance(75) {
                        addr(rng)
                    } else {
                        any64(rng)
                    }
                }
                MSR_PAT => pat_table(rng).iter().enumerate().fold(0, |a, (k, c)| a | c << (8 * k)),
                MSR_EFER => sub(rng, EFER_ALL | EFER_EXTRA),
                MSR_SFMASK => low32(rng, RFLAGS_ALL),
                MSR_APIC_BASE => frame(rng) | sub(rng, APIC_FLAGS),
                _ => any64(rng),
            };
            json!({"op": op, "idx": idx, "v": sanitize_msr(idx, v)})
        }
        // "konst": go through the `Segment64::BASE` constant of FS / GS instead of the typed wrapper
        "base_read" => json!({"op": op, "which": sel_arg(rng, "which", 3), "konst": rng.chance(35)}),
        "base_write" => json!({"op": op, "which": rng.below(3), "addr": addr(rng), "konst": rng.chance(35)}),
        "lstar_write" => json!({"op": op, "addr": addr(rng)}),
        "star_write" => {
            let s = star_selectors(rng);
            json!({"op": op, "a": s[0], "b": s[1], "c": s[2], "d": s[3]})
        }
        "star_write_raw" => json!({"op": op, "sysret": if rng.chance(50) { 0x13 } else { rng.below(65536) }, "syscall": if rng.chance(50) { 8 } else { rng.below(65536) }}),
        "cet_read" => json!({"op": op, "s": sel_arg(rng, "s", 2)}),
        "cet_write" => {
            let v = cet_value(rng);
            json!({"op": op, "s": rng.below(2), "f": v & CET_FLAGS, "page": v & !0xfff})
        }
        "cet_update" => {
            let mut s = json!({"op": op, "s": rng.below(2), "fxor": sub(rng, 0x3f)});
            if rng.chance(50) {
                s["page"] = json!(addr(rng) & !0xfff);
            }
            s
        }
        "pat_write" => {
            if rng.chance(15) {
                json!({"op": op, "default": true})
            } else {
                json!({"op": op, "t": pat_table(rng)})
            }
        }
        "apic_write" => json!({"op": op, "frame": frame(rng), "f": sub(rng, APIC_FLAGS)}),
        "apic_write_raw" => json!({"op": op, "frame": frame(rng), "v": if rng.chance(70) { sub(rng, APIC_FLAGS) } else { any64(rng) }}),
        "load_tss" => json!({"op": op, "sel": if rng.chance(60) { 0x50 } else { rng.below(16) << 3 | rng.below(8) }}),
        "seg_get" => json!({"op": op, "seg": sel_arg(rng, "seg", 6)}),
        "seg_set" => {
            let seg = rng.below(6);
            let mut s = json!({"op": op, "seg": seg, "sel": seg_selector(rng, seg), "built": rng.chance(30)});
            if rng.chance(25) {
                s["rerpl"] = json!(rng.below(4));
                if rng.chance(50) {
                    s["sel"] = json!(s["sel"].as_u64().unwrap_or(0) | 4);
                }
            }
            s
        }
        "seg_read_base" => json!({"op": op, "gs": sel_arg(rng, "gs", 2)}),
        "seg_write_base" => json!({"op": op, "gs": rng.below(2), "addr": addr(rng)}),
        "rflags_write" => json!({"op": op, "f": sub(rng, RFLAGS_ARG_SAFE)}),
        "rflags_update" => json!({"op": op, "xor": sub(rng, RFLAGS_ARG_SAFE)}),
        "rflags_write_raw" => json!({"op": op, "v": sub(rng, RFLAGS_ARG_SAFE) | 2}),
        _ => json!({"op": op}),
    }
}

/// the typed reader that observes what `op` wrote
fn reader_of(op: &str) -> Option<&'static str> {
    Some(match op {
        "cr0_write" | "cr0_update" | "cr0_write_raw" => "cr0_read",
        "cr4_write" | "cr4_update" | "cr4_write_raw" => "cr4_read",
        "efer_write" | "efer_update" | "efer_write_raw" => "efer_read",
        "cr3_write" | "cr3_update" | "cr3_write_raw" => "cr3_read",
        "cr3_write_pcid" | "cr3_write_pcid_nf" | "cr3_update_pcid" | "cr3_update_pcid_nf" => "cr3_read_pcid",
        "dr_write" => "dr_read",
        "dr7_write" | "dr7_write_raw" | "dr7_update" => "dr7_read",
        "dr7_write_fields" => "dr7_read_fields",
        "xcr0_write" | "xcr0_write_raw" | "xcr0_update" => "xcr0_read",
        "msr_write" => "msr_read",
        "base_write" => "base_read",
        "lstar_write" => "lstar_read",
        "star_write" | "star_write_raw" => "star_read",
        "sfmask_write" | "sfmask_update" => "sfmask_read",
        "cet_write" | "cet_update" => "cet_read",
        "pat_write" => "pat_read",
        "apic_write" | "apic_write_raw" => "apic_read",
        "seg_set" => "seg_get",
        "seg_write_base" => "seg_read_base",
        "rflags_write" | "rflags_write_raw" => "rflags_read",
        _ => return None,
    })
}

fn prior_config(rng: &mut Rng) -> Value {
    let cr0 = match rng.below(5) {
        0 => 0x8005_0033,
        1 | 2 => 0x8005_0033 ^ sub(rng, CR0_ALL),
        _ => rng.next() & 0xffff_ffff,
    };
    let mut cr4 = match rng.below(5) {
        0 => 0x20,
        1 | 2 => sub(rng, CR4_ALL) | 0x20,
        // UINTR 25, LASS 27, LAM_SUP 28 exist on current processors and are not modelled by the type
        3 => sub(rng, CR4_ALL) | 0x20 | sub(rng, 0x1a00_0000),
        _ => rng.next() & 0xffff_ffff,
    };
    if rng.chance(50) {
        cr4 ^= CR4_PCIDE;
    }
    let cr3 = frame(rng) | if rng.chance(50) { rng.below(4096) } else { sub(rng, CR3_FLAGS) };
    let dr6 = if rng.chance(70) { 0xffff_0ff0 | sub(rng, DR6_ALL) } else { rng.next() & 0xffff_ffff };
    let dr7 = if rng.chance(70) { 0x400 | sub(rng, DR7_VALID) } else { rng.next() & 0xffff_ffff };
    let xcr0 = xcr0_value(rng) | if rng.chance(25) { 0x6_0000 } else { 0 } | if rng.chance(10) { 1 << 19 } else { 0 };
    let mut msr: Vec<Value> = vec![];
    let mut put = |idx: u32, v: u64| msr.push(json!([idx, sanitize_msr(idx, v)]));
    put(MSR_EFER, 0x500 ^ sub(rng, EFER_ALL) | sub(rng, EFER_EXTRA));
    put(MSR_STAR, any64(rng));
    put(MSR_LSTAR, addr(rng));
    put(MSR_CSTAR, addr(rng));
    put(MSR_SFMASK, if rng.chance(60) { sub(rng, RFLAGS_ALL) } else { rng.next() & 0xffff_ffff });
    put(MSR_U_CET, cet_value(rng));
    put(MSR_S_CET, cet_value(rng));
    put(MSR_PAT, if rng.chance(30) { PAT_DEFAULT } else { pat_table(rng).iter().enumerate().fold(0, |a, (k, c)| a | c << (8 * k)) });
    put(MSR_APIC_BASE, if rng.chance(60) { 0xfee0_0000 } else { frame(rng) } | sub(rng, APIC_FLAGS));
    for _ in 0..rng.below(3) {
        put(*rng.pick(&[0x10u32, 0xC000_0103, 0x174, 0x1a0]), any64(rng));
    }
    let data = [0u64, 0x10, 0x1b, 0x48];
    json!({
        "cr0": cr0, "cr2": any64(rng), "cr3": cr3, "cr4": cr4,
        "dr": [any64(rng), any64(rng), any64(rng), any64(rng), 0, 0, dr6, dr7],
        "xcr0": xcr0, "msr": msr,
        "fs_base": addr(rng), "gs_base": addr(rng), "kgs_base": addr(rng),
        "sel": [*rng.pick(&data), *rng.pick(&[0x08u64, 0x28]), *rng.pick(&[0u64, 0x10]), *rng.pick(&data), *rng.pick(&data), *rng.pick(&data)],
        "rflags_sys": sub(rng, RFLAGS_SYS_SAFE), "iflag": rng.chance(50),
    })
}

pub fn gen(seed: u64) -> Replay {
    let mut rng = Rng::new(seed ^ 0xc16);
    let prior = prior_config(&mut rng);
    let gdt = make_gdt(&mut rng);
    let n = rng.range(3, 40) as usize;
    let fast_w: Vec<u32> = FAST_OPS.iter().map(|x| x.1).collect();
    let mon_w: Vec<u32> = MON_OPS.iter().map(|x| x.1).collect();
    let mut steps: Vec<Value> = vec![];
    while steps.len() < n {
        let op = if rng.chance(10) { MON_OPS[rng.weighted(&mon_w)].0 } else { FAST_OPS[rng.weighted(&fast_w)].0 };
        let s = mk(&mut rng, op, None);
        let follow = reader_of(op).filter(|_| rng.chance(35)).map(|r| mk(&mut rng, r, Some(&s)));
        steps.push(s);
        if let (Some(f), true) = (follow, steps.len() < n) {
            steps.push(f);
        }
    }
    Replay { property: "C16".into(), simulator: "cpusim".into(), seed, config: json!({"prior": prior, "gdt": gdt}), steps, violation: None, minimised_from_steps: None }
}

// ---- minimisation helpers ----------------------------------------------------------------------------

pub fn simplify(rp: &Replay) -> Vec<Replay> {
    // The generic minimiser keeps the LAST passing candidate of a round (candidates are computed
    // from the replay at the start of the round), so candidates are ordered weakest first.
    let mut out = vec![];
    let no_gdt = |mut c: Replay| {
        c.config["gdt"] = json!([0]);
        c
    };
    if rp.config["gdt"] != json!([0]) {
        out.push(no_gdt(rp.clone()));
    }
    // 1. simpler argument values: 0 / lowest set bit / low half / page part
    let mut all_zero = rp.clone();
    for (i, s) in rp.steps.iter().enumerate() {
        let Some(o) = s.as_object() else { continue };
        let mut step_zero = rp.clone();
        for (k, v) in o {
            if matches!(k.as_str(), "op" | "n" | "idx" | "which" | "s" | "seg" | "gs") {
                continue;
            }
            if let Some(x) = v.as_u64() {
                let low = x & x.wrapping_neg();
                let mut cands = vec![x & !0xfff, x & 0xffff_ffff, low, 0];
                cands.dedup();
                for cnd in cands {
                    if cnd != x {
                        let mut c = rp.clone();
                        c.steps[i][k] = json!(cnd);
                        out.push(c);
                    }
                }
                step_zero.steps[i][k] = json!(0);
                all_zero.steps[i][k] = json!(0);
            } else if let Some(a) = v.as_array() {
                let z = json!(vec![0u64; a.len()]);
                if *v != z {
                    let mut c = rp.clone();
                    c.steps[i][k] = z.clone();
                    out.push(c);
                }
                step_zero.steps[i][k] = z.clone();
                all_zero.steps[i][k] = z;
            }
        }
        out.push(step_zero);
    }
    out.push(all_zero);
    // 2. drop the prior-content randomisation: simpler contents, one register at a time, all but one, everything
    if let Some(o) = rp.config["prior"].as_object() {
        let simpler = |x: u64| -> Vec<u64> {
            let mut v = vec![x & 0xffff_ffff, x & x.wrapping_sub(1), x & x.wrapping_neg()];
            v.retain(|y| *y != x && *y != 0);
            v.dedup();
            v
        };
        for (k, v) in o {
            if let Some(x) = v.as_u64() {
                for y in simpler(x) {
                    let mut c = rp.clone();
                    c.config["prior"][k.as_str()] = json!(y);
                    out.push(c);
                }
            } else if k == "msr" {
                for (j, e) in v.as_array().cloned().unwrap_or_default().iter().enumerate() {
                    for y in simpler(e[1].as_u64().unwrap_or(0)) {
                        let mut c = rp.clone();
                        c.config["prior"]["msr"][j][1] = json!(y);
                        out.push(c);
                    }
                }
            }
        }
        for k in o.keys() {
            if k == "msr" {
                let n = o[k].as_array().map(|a| a.len()).unwrap_or(0);
                for j in 0..n {
                    let mut c = rp.clone();
                    c.config["prior"]["msr"].as_array_mut().unwrap().remove(j);
                    out.push(c);
                }
            }
            let mut c = rp.clone();
            c.config["prior"].as_object_mut().unwrap().remove(k);
            out.push(c);
        }
        if o.len() > 1 || o.get("msr").and_then(|m| m.as_array()).map(|a| a.len() > 1).unwrap_or(false) {
            for (k, v) in o {
                if k == "msr" {
                    for e in v.as_array().cloned().unwrap_or_default() {
                        let mut c = rp.clone();
                        c.config["prior"] = json!({"msr": [e]});
                        out.push(c.clone());
                        out.push(no_gdt(c));
                    }
                } else {
                    let mut c = rp.clone();
                    let mut single = serde_json::Map::new();
                    single.insert(k.clone(), v.clone());
                    c.config["prior"] = Value::Object(single);
                    out.push(c.clone());
                    out.push(no_gdt(c));
                }
            }
        }
        if !o.is_empty() {
            let mut c = rp.clone();
            c.config["prior"] = json!({});
            out.push(c.clone());
            out.push(no_gdt(c));
        }
    }
    out
}
