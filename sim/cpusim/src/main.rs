//! cpusim — deterministic simulation of the privileged half of the CPU behind the crate's real
//! instruction wrappers (trap-and-emulate in one user process, DESIGN.md §1.1 and §4).
//! Decides C11(c,d) C12 C13 C14 C15 C16 C17 C18 C20(a).

mod c11;
mod c12;
mod c13;
mod c14;
mod c15;
mod c16;
mod c17;
mod c18;
mod c20;

use usim::driver::{main_driver, Engine, Replay, Stats, Violation};

struct CpuSim;

impl Engine for CpuSim {
    fn name(&self) -> &'static str {
        "cpusim"
    }
    fn init(&self) {
        let _ = usim::world::world();
    }
    fn gen(&self, seed: u64, focus: &str) -> Replay {
        match focus {
            "C11" => c11::gen(seed),
            "C14" => c14::gen(seed),
            "C15" => c15::gen(seed),
            "C20" => c20::gen(seed),
            "C12" => c12::gen(seed),
            "C13" => c13::gen(seed),
            "C16" => c16::gen(seed),
            "C17" => c17::gen(seed),
            "C18" => c18::gen(seed),
            _ => {
                eprintln!("HARNESS-ERROR: cpusim has no scenario generator for {focus}");
                std::process::exit(2)
            }
        }
    }
    fn run(&self, rp: &Replay, st: &mut Stats) -> Option<Violation> {
        match rp.property.as_str() {
            "C11" => c11::run(rp, st),
            "C14" => c14::run(rp, st),
            "C15" => c15::run(rp, st),
            "C20" => c20::run(rp, st),
            "C12" => c12::run(rp, st),
            "C13" => c13::run(rp, st),
            "C16" => c16::run(rp, st),
            "C17" => c17::run(rp, st),
            "C18" => c18::run(rp, st),
            p => {
                eprintln!("HARNESS-ERROR: cpusim cannot run property {p}");
                std::process::exit(2)
            }
        }
    }
    fn simplify(&self, rp: &Replay) -> Vec<Replay> {
        match rp.property.as_str() {
            "C11" => c11::simplify(rp),
            "C14" => c14::simplify(rp),
            "C15" => c15::simplify(rp),
            "C20" => c20::simplify(rp),
            "C12" => c12::simplify(rp),
            "C13" => c13::simplify(rp),
            "C16" => c16::simplify(rp),
            "C17" => c17::simplify(rp),
            "C18" => c18::simplify(rp),
            _ => vec![],
        }
    }
}

fn main() {
    main_driver(&CpuSim);
}
