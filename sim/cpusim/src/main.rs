//! cpusim — deterministic simulation of the privileged half of the CPU behind the crate's real
//! instruction wrappers (trap-and-emulate in one user process, DESIGN.md §1.1 and §4).
//! Decides C11(c,d) C12 C13 C14 C15 C16 C17 C18 C20(a).

mod c17;
mod c18;

use usim::driver::{main_driver, Engine, Replay, Stats, Violation};

struct CpuSim;

impl Engine for CpuSim {
    fn name(&self) -> &'static str {
        "cpusim"
    }
    fn init(&self) {
        let _ = usim::world::world();
    }
    fn gen(&self, seed: u64, focus: &str) -> Replay {
        match focus {
            "C17" => c17::gen(seed),
            "C18" => c18::gen(seed),
            _ => {
                eprintln!("HARNESS-ERROR: cpusim has no scenario generator for {focus}");
                std::process::exit(2)
            }
        }
    }
    fn run(&self, rp: &Replay, st: &mut Stats) -> Option<Violation> {
        match rp.property.as_str() {
            "C17" => c17::run(rp, st),
            "C18" => c18::run(rp, st),
            p => {
                eprintln!("HARNESS-ERROR: cpusim cannot run property {p}");
                std::process::exit(2)
            }
        }
    }
    fn simplify(&self, rp: &Replay) -> Vec<Replay> {
        match rp.property.as_str() {
            "C17" => c17::simplify(rp),
            "C18" => c18::simplify(rp),
            _ => vec![],
        }
    }
}

fn main() {
    main_driver(&CpuSim);
}
