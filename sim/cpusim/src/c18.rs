//! C18 — port objects perform exactly one access of their width on their port.
//! Environment: the port bus with seeded devices behind the trapped in/out instructions.

use serde_json::{json, Value};
use std::collections::BTreeMap;
use usim::cpu::{Cpu, Device, Ev};
use usim::driver::{viol, Replay, Stats, Violation};
use usim::prng::Rng;
use usim::world::{sut_call, world};
use x86_64::instructions::port::{Port, PortReadOnly, PortWriteOnly};

enum Obj {
    Rw8(Port<u8>),
    Rw16(Port<u16>),
    Rw32(Port<u32>),
    Ro8(PortReadOnly<u8>),
    Ro16(PortReadOnly<u16>),
    Ro32(PortReadOnly<u32>),
    Wo8(PortWriteOnly<u8>),
    Wo16(PortWriteOnly<u16>),
    Wo32(PortWriteOnly<u32>),
}

impl Obj {
    fn new(access: &str, width: u64, port: u16) -> Obj {
        match (access, width) {
            ("rw", 8) => Obj::Rw8(Port::new(port)),
            ("rw", 16) => Obj::Rw16(Port::new(port)),
            ("rw", _) => Obj::Rw32(Port::new(port)),
            ("ro", 8) => Obj::Ro8(PortReadOnly::new(port)),
            ("ro", 16) => Obj::Ro16(PortReadOnly::new(port)),
            ("ro", _) => Obj::Ro32(PortReadOnly::new(port)),
            (_, 8) => Obj::Wo8(PortWriteOnly::new(port)),
            (_, 16) => Obj::Wo16(PortWriteOnly::new(port)),
            _ => Obj::Wo32(PortWriteOnly::new(port)),
        }
    }
    fn kind(&self) -> (u8, u8) {
        match self {
            Obj::Rw8(_) => (0, 1),
            Obj::Rw16(_) => (0, 2),
            Obj::Rw32(_) => (0, 4),
            Obj::Ro8(_) => (1, 1),
            Obj::Ro16(_) => (1, 2),
            Obj::Ro32(_) => (1, 4),
            Obj::Wo8(_) => (2, 1),
            Obj::Wo16(_) => (2, 2),
            Obj::Wo32(_) => (2, 4),
        }
    }
    fn read(&mut self) -> Option<u32> {
        unsafe {
            Some(match self {
                Obj::Rw8(p) => p.read() as u32,
                Obj::Rw16(p) => p.read() as u32,
                Obj::Rw32(p) => p.read(),
                Obj::Ro8(p) => p.read() as u32,
                Obj::Ro16(p) => p.read() as u32,
                Obj::Ro32(p) => p.read(),
                _ => return None,
            })
        }
    }
    fn write(&mut self, v: u32) -> bool {
        unsafe {
            match self {
                Obj::Rw8(p) => p.write(v as u8),
                Obj::Rw16(p) => p.write(v as u16),
                Obj::Rw32(p) => p.write(v),
                Obj::Wo8(p) => p.write(v as u8),
                Obj::Wo16(p) => p.write(v as u16),
                Obj::Wo32(p) => p.write(v),
                _ => return false,
            }
        }
        true
    }
    /// two reads in one function (after inlining): both must reach the bus
    fn read2(&mut self) -> Option<(u32, u32)> {
        unsafe {
            Some(match self {
                Obj::Rw8(p) => (p.read() as u32, p.read() as u32),
                Obj::Rw16(p) => (p.read() as u32, p.read() as u32),
                Obj::Rw32(p) => (p.read(), p.read()),
                Obj::Ro8(p) => (p.read() as u32, p.read() as u32),
                Obj::Ro16(p) => (p.read() as u32, p.read() as u32),
                Obj::Ro32(p) => (p.read(), p.read()),
                _ => return None,
            })
        }
    }
    /// a read whose value the caller does not use (acknowledge-style access)
    fn read_discard(&mut self) -> bool {
        unsafe {
            match self {
                Obj::Rw8(p) => {
                    let _ = p.read();
                }
                Obj::Rw16(p) => {
                    let _ = p.read();
                }
                Obj::Rw32(p) => {
                    let _ = p.read();
                }
                Obj::Ro8(p) => {
                    let _ = p.read();
                }
                Obj::Ro16(p) => {
                    let _ = p.read();
                }
                Obj::Ro32(p) => {
                    let _ = p.read();
                }
                _ => return false,
            }
        }
        true
    }
    /// the `!=` operator (PartialEq::ne may be hand-written)
    #[allow(clippy::partialeq_ne_impl)]
    fn ne(&self, o: &Obj) -> Option<bool> {
        Some(match (self, o) {
            (Obj::Rw8(a), Obj::Rw8(b)) => a != b,
            (Obj::Rw16(a), Obj::Rw16(b)) => a != b,
            (Obj::Rw32(a), Obj::Rw32(b)) => a != b,
            (Obj::Ro8(a), Obj::Ro8(b)) => a != b,
            (Obj::Ro16(a), Obj::Ro16(b)) => a != b,
            (Obj::Ro32(a), Obj::Ro32(b)) => a != b,
            (Obj::Wo8(a), Obj::Wo8(b)) => a != b,
            (Obj::Wo16(a), Obj::Wo16(b)) => a != b,
            (Obj::Wo32(a), Obj::Wo32(b)) => a != b,
            _ => return None,
        })
    }
    fn dup(&self) -> Obj {
        match self {
            Obj::Rw8(p) => Obj::Rw8(p.clone()),
            Obj::Rw16(p) => Obj::Rw16(p.clone()),
            Obj::Rw32(p) => Obj::Rw32(p.clone()),
            Obj::Ro8(p) => Obj::Ro8(p.clone()),
            Obj::Ro16(p) => Obj::Ro16(p.clone()),
            Obj::Ro32(p) => Obj::Ro32(p.clone()),
            Obj::Wo8(p) => Obj::Wo8(p.clone()),
            Obj::Wo16(p) => Obj::Wo16(p.clone()),
            Obj::Wo32(p) => Obj::Wo32(p.clone()),
        }
    }
    /// `Clone::clone_from` (in-place form) exists only between objects of the same type
    fn assign_from(&mut self, o: &Obj) -> bool {
        match (self, o) {
            (Obj::Rw8(a), Obj::Rw8(b)) => a.clone_from(b),
            (Obj::Rw16(a), Obj::Rw16(b)) => a.clone_from(b),
            (Obj::Rw32(a), Obj::Rw32(b)) => a.clone_from(b),
            (Obj::Ro8(a), Obj::Ro8(b)) => a.clone_from(b),
            (Obj::Ro16(a), Obj::Ro16(b)) => a.clone_from(b),
            (Obj::Ro32(a), Obj::Ro32(b)) => a.clone_from(b),
            (Obj::Wo8(a), Obj::Wo8(b)) => a.clone_from(b),
            (Obj::Wo16(a), Obj::Wo16(b)) => a.clone_from(b),
            (Obj::Wo32(a), Obj::Wo32(b)) => a.clone_from(b),
            _ => return false,
        }
        true
    }
    /// `==` exists only between objects of the same type
    fn eq(&self, o: &Obj) -> Option<bool> {
        Some(match (self, o) {
            (Obj::Rw8(a), Obj::Rw8(b)) => a == b,
            (Obj::Rw16(a), Obj::Rw16(b)) => a == b,
            (Obj::Rw32(a), Obj::Rw32(b)) => a == b,
            (Obj::Ro8(a), Obj::Ro8(b)) => a == b,
            (Obj::Ro16(a), Obj::Ro16(b)) => a == b,
            (Obj::Ro32(a), Obj::Ro32(b)) => a == b,
            (Obj::Wo8(a), Obj::Wo8(b)) => a == b,
            (Obj::Wo16(a), Obj::Wo16(b)) => a == b,
            (Obj::Wo32(a), Obj::Wo32(b)) => a == b,
            _ => return None,
        })
    }
}

/// End of an accessible page that is followed by an inaccessible one: an object placed so that its
/// last byte is the last byte of the page shows any access that reaches beyond the object.
fn guard_end() -> u64 {
    static mut END: u64 = 0;
    unsafe {
        if END == 0 {
            let p = libc::mmap(core::ptr::null_mut(), 8192, libc::PROT_READ | libc::PROT_WRITE, libc::MAP_PRIVATE | libc::MAP_ANONYMOUS, -1, 0);
            assert!(p != libc::MAP_FAILED);
            libc::mprotect((p as *mut u8).add(4096) as *mut libc::c_void, 4096, libc::PROT_NONE);
            END = p as u64 + 4096;
        }
        END
    }
}

unsafe fn at_edge<P>(make: P) -> &'static mut P {
    let p = (guard_end() - core::mem::size_of::<P>() as u64) as *mut P;
    p.write(make);
    &mut *p
}

fn port_pick(rng: &mut Rng, used: &[u16]) -> u16 {
    match rng.below(13) {
        // neighbours of a port in use (n-1, n^1, n^2) and the last ports of the I/O space
        10 if !used.is_empty() => rng.pick(used).wrapping_sub(1),
        11 if !used.is_empty() => *rng.pick(used) ^ (1 << rng.below(3)),
        12 => 0xfff8 + rng.below(8) as u16,
        0 => 0,
        1 => 0xff,
        2 => 0x100,
        3 => 0xffff,
        4 | 5 if !used.is_empty() => *rng.pick(used),
        6 if !used.is_empty() => rng.pick(used).wrapping_add(1),
        7 => 1 << rng.below(16),
        _ => rng.below(65536) as u16,
    }
}

pub fn gen(seed: u64) -> Replay {
    let mut rng = Rng::new(seed ^ 0xc18);
    let n = rng.range(3, 40) as usize;
    let mut steps = vec![];
    let mut ids: Vec<(u64, String, u64, u16)> = vec![];
    let mut used: Vec<u16> = vec![];
    let mut devices = vec![];
    for _ in 0..rng.below(4) {
        let port = port_pick(&mut rng, &used);
        used.push(port);
        devices.push(json!({"port": port, "kind": *rng.pick(&["latch", "stream", "counter"]), "init": rng.next() as u32}));
    }
    let mut next_id = 0u64;
    for _ in 0..n {
        let op = if ids.is_empty() { 0 } else { rng.weighted(&[3, 6, 6, 2, 2, 2, 2, 2, 2, 2, 2, 2]) };
        match op {
            0 => {
                let access = *rng.pick(&["rw", "ro", "wo"]);
                let width = *rng.pick(&[8u64, 16, 32]);
                let port = port_pick(&mut rng, &used);
                used.push(port);
                ids.push((next_id, access.to_string(), width, port));
                steps.push(json!({"op": "new", "id": next_id, "access": access, "width": width, "port": port}));
                next_id += 1;
            }
            1 => {
                let c: Vec<_> = ids.iter().filter(|x| x.1 != "wo").collect();
                if let Some(x) = c.get(rng.below(c.len().max(1) as u64) as usize) {
                    steps.push(json!({"op": "read", "id": x.0}));
                }
            }
            2 => {
                let c: Vec<_> = ids.iter().filter(|x| x.1 != "ro").collect();
                if let Some(x) = c.get(rng.below(c.len().max(1) as u64) as usize) {
                    let v = match rng.below(5) {
                        0 => 0,
                        1 => 0xffff_ffff,
                        2 => 0x8000_0080,
                        _ => rng.next() as u32,
                    };
                    steps.push(json!({"op": "write", "id": x.0, "value": v}));
                }
            }
            3 => {
                let x = rng.pick(&ids).clone();
                ids.push((next_id, x.1.clone(), x.2, x.3));
                steps.push(json!({"op": "clone", "id": x.0, "new_id": next_id}));
                next_id += 1;
            }
            4 | 5 => {
                // mostly two objects of the same type (only those can be compared)
                let x = rng.pick(&ids).clone();
                let same: Vec<u64> = ids.iter().filter(|y| y.1 == x.1 && y.2 == x.2).map(|y| y.0).collect();
                let b = if rng.chance(70) { *rng.pick(&same) } else { rng.pick(&ids).0 };
                steps.push(json!({"op": if op == 4 { "eq" } else { "ne" }, "a": x.0, "b": b}));
            }
            11 => {
                steps.push(json!({"op": "leaf", "width": *rng.pick(&[1u64, 2, 4]), "port": port_pick(&mut rng, &used), "write": rng.chance(40), "value": rng.next() as u32, "seed": rng.next()}));
            }
            10 => {
                // a short-lived object whose last byte is the last byte of a mapped page
                let access = rng.below(3);
                let write = if access == 1 { false } else if access == 2 { true } else { rng.chance(50) };
                steps.push(json!({"op": "edge", "access": access, "width": *rng.pick(&[1u64, 2, 4]), "port": port_pick(&mut rng, &used), "write": write, "value": rng.next() as u32}));
            }
            9 => {
                let v = match rng.below(4) {
                    0 => 0xdead_beef,
                    1 => 0xffff_ffff,
                    _ => rng.next() as u32,
                };
                steps.push(json!({"op": "chain", "kind": rng.below(3), "a": port_pick(&mut rng, &used), "b": port_pick(&mut rng, &used), "c": port_pick(&mut rng, &used), "value": v}));
            }
            8 => {
                // dst.clone_from(&src) between two objects of the same type
                let src = rng.pick(&ids).clone();
                let c: Vec<usize> = (0..ids.len()).filter(|&k| ids[k].1 == src.1 && ids[k].2 == src.2 && ids[k].0 != src.0).collect();
                if !c.is_empty() {
                    let k = c[rng.below(c.len() as u64) as usize];
                    ids[k].3 = src.3;
                    steps.push(json!({"op": "clone_from", "id": src.0, "dst": ids[k].0}));
                }
            }
            k => {
                let c: Vec<_> = ids.iter().filter(|x| x.1 != "wo").collect();
                if let Some(x) = c.get(rng.below(c.len().max(1) as u64) as usize) {
                    steps.push(json!({"op": if k == 6 { "read2" } else { "read_discard" }, "id": x.0}));
                }
            }
        }
    }
    let default_dev_seed = rng.next();
    // a long run of accesses through ONE object (a driver polling a status port or streaming a
    // sector): per-object state that wraps or saturates shows only after 2^8 / 2^16 uses
    if rng.chance(1) || (rng.chance(3) && !ids.is_empty()) {
        if let Some(x) = ids.get(rng.below(ids.len().max(1) as u64) as usize) {
            let n = if rng.chance(25) { 65_530 + rng.below(600) } else { 250 + rng.below(300) };
            let write = if x.1 == "ro" { false } else if x.1 == "wo" { true } else { rng.chance(50) };
            let at = rng.below(steps.len() as u64 + 1) as usize;
            // only after the object exists
            let first = steps.iter().position(|s| (s["op"] == "new" && s["id"] == json!(x.0)) || (s["op"] == "clone" && s["new_id"] == json!(x.0))).unwrap_or(0);
            steps.insert(at.max(first + 1), json!({"op": "burst", "id": x.0, "n": n, "write": write, "value": rng.next() as u32}));
        }
    }
    Replay { property: "C18".into(), simulator: "cpusim".into(), seed, config: json!({"devices": devices, "default_dev_seed": default_dev_seed}), steps, violation: None, minimised_from_steps: None }
}

// ---- several accesses in one function (values live in registers across port instructions) -------

#[inline(never)]
fn chain_read_status_write(a: u16, b: u16, c: u16, wide: bool) -> (u32, u8) {
    unsafe {
        if wide {
            let x = Port::<u32>::new(a).read();
            let s = PortReadOnly::<u8>::new(b).read();
            PortWriteOnly::<u32>::new(c).write(x);
            (x, s)
        } else {
            let x = Port::<u16>::new(a).read();
            let s = PortReadOnly::<u8>::new(b).read();
            PortWriteOnly::<u16>::new(c).write(x);
            (x as u32, s)
        }
    }
}

#[inline(never)]
fn chain_write_narrow_then_wide(a: u16, b: u16, c: u16, x: u32) {
    unsafe {
        PortWriteOnly::<u8>::new(a).write(x as u8);
        PortWriteOnly::<u16>::new(b).write(x as u16);
        PortWriteOnly::<u32>::new(c).write(x);
    }
}

// ---- port accesses in functions without calls (the caller's locals may live in the red zone) -------

const LEAF_N: usize = 12;

fn lcg(x: u64) -> u64 {
    x.wrapping_mul(6364136223846793005).wrapping_add(1442695040888963407)
}

fn leaf_expected(seed: u64) -> u64 {
    let (mut x, mut h) = (seed, 0u64);
    for _ in 0..LEAF_N {
        x = lcg(x);
        h = h.rotate_left(7) ^ x;
    }
    h
}

macro_rules! leaf_fns {
    ($rd:ident, $wr:ident, $t:ty) => {
        /// No calls in here (the port access is inlined): seeded locals in stack memory around it.
        #[inline(never)]
        fn $rd(port: u16, seed: u64) -> (u32, u64) {
            let mut a = [0u64; LEAF_N];
            let mut x = seed;
            unsafe {
                for k in 0..LEAF_N {
                    x = lcg(x);
                    core::ptr::write_volatile(a.as_mut_ptr().add(k), x);
                }
                let v = PortReadOnly::<$t>::new(port).read();
                let mut h = 0u64;
                for k in 0..LEAF_N {
                    h = h.rotate_left(7) ^ core::ptr::read_volatile(a.as_ptr().add(k));
                }
                (v as u32, h)
            }
        }
        #[inline(never)]
        fn $wr(port: u16, value: u32, seed: u64) -> u64 {
            let mut a = [0u64; LEAF_N];
            let mut x = seed;
            unsafe {
                for k in 0..LEAF_N {
                    x = lcg(x);
                    core::ptr::write_volatile(a.as_mut_ptr().add(k), x);
                }
                PortWriteOnly::<$t>::new(port).write(value as $t);
                let mut h = 0u64;
                for k in 0..LEAF_N {
                    h = h.rotate_left(7) ^ core::ptr::read_volatile(a.as_ptr().add(k));
                }
                h
            }
        }
    };
}
leaf_fns!(leaf_read8, leaf_write8, u8);
leaf_fns!(leaf_read16, leaf_write16, u16);
leaf_fns!(leaf_read32, leaf_write32, u32);

fn mask(width: u8) -> u32 {
    match width {
        1 => 0xff,
        2 => 0xffff,
        _ => 0xffff_ffff,
    }
}

pub fn run(rp: &Replay, st: &mut Stats) -> Option<Violation> {
    let w = world();
    w.cpu = Cpu::default();
    w.cpu.default_dev_seed = rp.config["default_dev_seed"].as_u64().unwrap_or(0);
    for d in rp.config["devices"].as_array().cloned().unwrap_or_default() {
        let port = d["port"].as_u64().unwrap() as u16;
        let init = d["init"].as_u64().unwrap_or(0) as u32;
        let dev = match d["kind"].as_str().unwrap_or("stream") {
            "latch" => Device::Latch(init),
            "counter" => Device::Counter(init),
            _ => Device::Stream(init as u64),
        };
        w.cpu.ports.insert(port, dev);
    }
    let mut objs: BTreeMap<u64, (Obj, u16)> = BTreeMap::new();
    for (i, s) in rp.steps.iter().enumerate() {
        st.steps += 1;
        let op = s["op"].as_str().unwrap_or("");
        match op {
            "new" => {
                let port = s["port"].as_u64().unwrap() as u16;
                let o = match sut_call("new", || Obj::new(s["access"].as_str().unwrap(), s["width"].as_u64().unwrap(), port)) {
                    Ok(o) => o,
                    Err(m) => return Some(viol(&["C18"], "panic", i, format!("creating a port object for port {port:#x} panicked: {m}"))),
                };
                objs.insert(s["id"].as_u64().unwrap(), (o, port));
            }
            "clone" => {
                let (src, dst) = (s["id"].as_u64().unwrap(), s["new_id"].as_u64().unwrap());
                if let Some((o, p)) = objs.get(&src) {
                    let c = match sut_call("clone", || o.dup()) {
                        Ok(c) => (c, *p),
                        Err(m) => return Some(viol(&["C18"], "panic", i, format!("cloning the port object for port {p:#x} panicked: {m}"))),
                    };
                    objs.insert(dst, c);
                }
            }
            "clone_from" => {
                // dst.clone_from(&src): afterwards dst refers to src's port
                let (src, dst) = (s["id"].as_u64().unwrap(), s["dst"].as_u64().unwrap());
                if src != dst {
                    let dup = match objs.get(&src) {
                        Some((o, p)) => match sut_call("clone", || o.dup()) {
                            Ok(c) => Some((c, *p)),
                            Err(m) => return Some(viol(&["C18"], "panic", i, format!("cloning the port object for port {p:#x} panicked: {m}"))),
                        },
                        None => None,
                    };
                    if let Some((so, sp)) = dup {
                        if let Some(d) = objs.get_mut(&dst) {
                            let r = sut_call("clone_from", || d.0.assign_from(&so));
                            match r {
                                Ok(true) => {
                                    st.calls += 1;
                                    d.1 = sp;
                                    st.count("clone_from");
                                }
                                Ok(false) => {}
                                Err(m) => return Some(viol(&["C18"], "panic", i, format!("clone_from panicked: {m}"))),
                            }
                        }
                    }
                }
            }
            "eq" => {
                let (a, b) = (s["a"].as_u64().unwrap(), s["b"].as_u64().unwrap());
                if let (Some(x), Some(y)) = (objs.get(&a), objs.get(&b)) {
                    let r = match sut_call("eq", || x.0.eq(&y.0)) {
                        Ok(r) => r,
                        Err(m) => return Some(viol(&["C18"], "panic", i, format!("comparing the port objects for ports {:#x} and {:#x} panicked: {m}", x.1, y.1))),
                    };
                    if let Some(r) = r {
                        st.calls += 1;
                        if r != (x.1 == y.1) {
                            return Some(viol(&["C18"], "port-eq", i, format!("port objects for ports {:#x} and {:#x} compare {}", x.1, y.1, if r { "equal" } else { "unequal" })));
                        }
                    }
                }
            }
            "ne" => {
                let (a, b) = (s["a"].as_u64().unwrap(), s["b"].as_u64().unwrap());
                if let (Some(x), Some(y)) = (objs.get(&a), objs.get(&b)) {
                    let r = match sut_call("ne", || x.0.ne(&y.0)) {
                        Ok(r) => r,
                        Err(m) => return Some(viol(&["C18"], "panic", i, format!("comparing (`!=`) the port objects for ports {:#x} and {:#x} panicked: {m}", x.1, y.1))),
                    };
                    if let Some(r) = r {
                        st.calls += 1;
                        if r != (x.1 != y.1) {
                            return Some(viol(&["C18"], "port-eq", i, format!("port objects for ports {:#x} and {:#x}: `!=` returned {}", x.1, y.1, r)));
                        }
                    }
                }
            }
            "read2" | "read_discard" => {
                let id = s["id"].as_u64().unwrap();
                let Some((o, port)) = objs.get_mut(&id) else { continue };
                let port = *port;
                let (acc, width) = o.kind();
                if acc == 2 {
                    continue;
                }
                let twice = op == "read2";
                let r = sut_call(op, || if twice { o.read2() } else { o.read_discard().then_some((0, 0)) });
                st.calls += 1;
                let trace = std::mem::take(&mut world().cpu.trace);
                st.fold_trace(&trace);
                let got = match r {
                    Err(m) => return Some(viol(&["C18"], "panic", i, format!("port {op} panicked: {m}"))),
                    Ok(v) => v,
                };
                let want = if twice { 2 } else { 1 };
                let ins: Vec<(u8, u16, u32)> = trace.iter().filter_map(|e| if let Ev::In { width, port, val } = e { Some((*width, *port, *val)) } else { None }).collect();
                if trace.len() != want || ins.len() != want {
                    return Some(viol(&["C18"], "port-access-count", i, format!("{} read(s) of a {}-bit port object for port {port:#x} ({}) executed {} port instruction(s): {trace:x?}", want, width * 8, if twice { "two reads in a row" } else { "value not used by the caller" }, trace.len())));
                }
                for (w2, p2, _) in &ins {
                    if *w2 != width || *p2 != port {
                        return Some(viol(&["C18"], "port-access", i, format!("read of a {}-bit port object for port {port:#x} executed a {}-bit `in` on port {p2:#x}", width * 8, w2 * 8)));
                    }
                }
                if twice && got != Some((ins[0].2, ins[1].2)) {
                    return Some(viol(&["C18"], "port-read-value", i, format!("device supplied {:#x} then {:#x} on port {port:#x} but the two reads returned {got:x?}", ins[0].2, ins[1].2)));
                }
                st.distinct_key(&[if twice { 2 } else { 3 }, acc as u64, width as u64, (port == 0) as u64, (port == 0xffff) as u64, (port > 0xff) as u64, 0]);
            }
            "chain" => {
                let (a, b, c) = (s["a"].as_u64().unwrap_or(0) as u16, s["b"].as_u64().unwrap_or(1) as u16, s["c"].as_u64().unwrap_or(2) as u16);
                let kind = s["kind"].as_u64().unwrap_or(0);
                let x = s["value"].as_u64().unwrap_or(0) as u32;
                let r = sut_call("chain", || match kind {
                    0 | 1 => Some(chain_read_status_write(a, b, c, kind == 0)),
                    _ => {
                        chain_write_narrow_then_wide(a, b, c, x);
                        None
                    }
                });
                st.calls += 1;
                let trace = std::mem::take(&mut world().cpu.trace);
                st.fold_trace(&trace);
                let got = match r {
                    Err(m) => return Some(viol(&["C18"], "panic", i, format!("port accesses panicked: {m}"))),
                    Ok(v) => v,
                };
                let bad = |what: String| Some(viol(&["C18"], "port-chain", i, format!("{what}; executed {trace:x?}")));
                if kind <= 1 {
                    let w = if kind == 0 { 4u8 } else { 2 };
                    let (Some(Ev::In { width: w1, port: p1, val: v1 }), Some(Ev::In { width: 1, port: p2, val: v2 }), Some(Ev::Out { width: w3, port: p3, val: v3 }), 3) = (trace.first(), trace.get(1), trace.get(2), trace.len()) else {
                        return bad(format!("a {}-bit read of port {a:#x}, a byte read of port {b:#x} and a {}-bit write of the first value to port {c:#x} in one function", w * 8, w * 8));
                    };
                    if (*w1, *p1, *p2, *w3, *p3) != (w, a, b, w, c) {
                        return bad(format!("a {}-bit read of port {a:#x}, a byte read of port {b:#x} and a {}-bit write to port {c:#x} in one function used other widths or ports", w * 8, w * 8));
                    }
                    if v3 != v1 {
                        return bad(format!("the device supplied {v1:#x} on port {a:#x}; after a byte read of port {b:#x} (device supplied {v2:#x}) the same value was written to port {c:#x}, but {v3:#x} went out on the bus"));
                    }
                    if got != Some((*v1, *v2 as u8)) {
                        return bad(format!("the devices supplied {v1:#x} and {v2:#x}, the reads returned {got:x?}"));
                    }
                } else {
                    let want = [Ev::Out { width: 1, port: a, val: x & 0xff }, Ev::Out { width: 2, port: b, val: x & 0xffff }, Ev::Out { width: 4, port: c, val: x }];
                    if trace != want {
                        return bad(format!("the low byte, the low word and then all of {x:#x} written to ports {a:#x}, {b:#x}, {c:#x} in one function must put {want:x?} on the bus"));
                    }
                }
                st.count("chained_accesses_in_one_function");
                st.distinct_key(&[9, kind, 0, 0, 0, 0, 0]);
            }
            "leaf" => {
                let width = s["width"].as_u64().unwrap_or(1) as u8;
                let port = s["port"].as_u64().unwrap_or(0) as u16;
                let is_read = !s["write"].as_bool().unwrap_or(false);
                let value = s["value"].as_u64().unwrap_or(0) as u32;
                let seed = s["seed"].as_u64().unwrap_or(0);
                let r = sut_call("leaf", || match (is_read, width) {
                    (true, 1) => { let (v, h) = leaf_read8(port, seed); (Some(v), h) }
                    (true, 2) => { let (v, h) = leaf_read16(port, seed); (Some(v), h) }
                    (true, _) => { let (v, h) = leaf_read32(port, seed); (Some(v), h) }
                    (false, 1) => (None, leaf_write8(port, value, seed)),
                    (false, 2) => (None, leaf_write16(port, value, seed)),
                    (false, _) => (None, leaf_write32(port, value, seed)),
                });
                st.calls += 1;
                st.count("access_inside_a_function_without_calls");
                let trace = std::mem::take(&mut world().cpu.trace);
                st.fold_trace(&trace);
                let (got, h) = match r {
                    Err(m) => return Some(viol(&["C18"], "panic", i, format!("port access in a call-free function panicked: {m}"))),
                    Ok(v) => v,
                };
                let ok = trace.len() == 1
                    && match &trace[0] {
                        Ev::In { width: w2, port: p2, val } => is_read && *w2 == width && *p2 == port && got == Some(*val),
                        Ev::Out { width: w2, port: p2, val } => !is_read && *w2 == width && *p2 == port && *val == value & mask(width),
                        _ => false,
                    };
                if !ok {
                    return Some(viol(&["C18"], "port-access", i, format!("{} of a {}-bit port object for port {port:#x} inside a call-free function executed {trace:x?} (returned {got:x?})", if is_read { "read" } else { "write" }, width * 8)));
                }
                if h != leaf_expected(seed) {
                    return Some(viol(&["C18"], "caller-memory-touched", i, format!("a function without calls kept {LEAF_N} seeded words in its stack frame around a {}-bit port {}; they read back changed (the access is to happen without touching memory)", width * 8, if is_read { "read" } else { "write" })));
                }
            }
            "edge" => {
                let (acc, width) = (s["access"].as_u64().unwrap_or(0) as u8, s["width"].as_u64().unwrap_or(1) as u8);
                let port = s["port"].as_u64().unwrap_or(0) as u16;
                let is_read = !s["write"].as_bool().unwrap_or(false);
                let value = s["value"].as_u64().unwrap_or(0) as u32;
                let r = sut_call("edge", || unsafe {
                    match (acc, width) {
                        (0, 1) => { let p = at_edge(Port::<u8>::new(port)); if is_read { Some(p.read() as u32) } else { p.write(value as u8); None } }
                        (0, 2) => { let p = at_edge(Port::<u16>::new(port)); if is_read { Some(p.read() as u32) } else { p.write(value as u16); None } }
                        (0, _) => { let p = at_edge(Port::<u32>::new(port)); if is_read { Some(p.read()) } else { p.write(value); None } }
                        (1, 1) => Some(at_edge(PortReadOnly::<u8>::new(port)).read() as u32),
                        (1, 2) => Some(at_edge(PortReadOnly::<u16>::new(port)).read() as u32),
                        (1, _) => Some(at_edge(PortReadOnly::<u32>::new(port)).read()),
                        (_, 1) => { at_edge(PortWriteOnly::<u8>::new(port)).write(value as u8); None }
                        (_, 2) => { at_edge(PortWriteOnly::<u16>::new(port)).write(value as u16); None }
                        _ => { at_edge(PortWriteOnly::<u32>::new(port)).write(value); None }
                    }
                });
                st.calls += 1;
                st.count("object_at_the_end_of_a_mapped_page");
                let trace = std::mem::take(&mut world().cpu.trace);
                st.fold_trace(&trace);
                let got = match r {
                    Err(m) => return Some(viol(&["C18"], "panic", i, format!("port access through an object at the end of a page panicked: {m}"))),
                    Ok(v) => v,
                };
                let is_read = is_read || acc == 1;
                let is_read = is_read && acc != 2;
                let ok = trace.len() == 1
                    && match &trace[0] {
                        Ev::In { width: w2, port: p2, val } => is_read && *w2 == width && *p2 == port && got == Some(*val),
                        Ev::Out { width: w2, port: p2, val } => !is_read && *w2 == width && *p2 == port && *val == value & mask(width),
                        _ => false,
                    };
                if !ok {
                    return Some(viol(&["C18"], "port-access", i, format!("{} through a {}-bit port object for port {port:#x} placed at the end of a page executed {trace:x?} (returned {got:x?}, value {:#x})", if is_read { "read" } else { "write" }, width * 8, value & mask(width))));
                }
            }
            "burst" => {
                let id = s["id"].as_u64().unwrap();
                let Some((o, port)) = objs.get_mut(&id) else { continue };
                let port = *port;
                let (acc, width) = o.kind();
                let n = s["n"].as_u64().unwrap_or(1).min(70_000) as usize;
                let is_read = !s["write"].as_bool().unwrap_or(false);
                let value = s["value"].as_u64().unwrap_or(0) as u32;
                if (is_read && acc == 2) || (!is_read && acc == 1) {
                    continue;
                }
                let mut got: Vec<u32> = Vec::with_capacity(if is_read { n } else { 0 });
                let mut done = 0usize;
                let r = sut_call("burst", || {
                    for k in 0..n {
                        if is_read {
                            got.push(o.read().unwrap_or(0));
                        } else {
                            o.write(value.wrapping_add(k as u32));
                        }
                        done = k + 1;
                    }
                });
                st.calls += done as u64;
                let trace = std::mem::take(&mut world().cpu.trace);
                st.count("long_runs_through_one_object");
                if n > 65_536 {
                    st.count("long_runs_beyond_65536_accesses");
                }
                if let Err(m) = r {
                    return Some(viol(&["C18"], "panic", i, format!("access number {} through one {}-bit port object for port {port:#x} panicked: {m}", done + 1, width * 8)));
                }
                if trace.len() != n {
                    return Some(viol(&["C18"], "port-access-count", i, format!("{n} accesses through one {}-bit port object for port {port:#x} executed {} port instruction(s)", width * 8, trace.len())));
                }
                for (k, e) in trace.iter().enumerate() {
                    let ok = match e {
                        Ev::In { width: w2, port: p2, val } => is_read && *w2 == width && *p2 == port && got.get(k) == Some(val),
                        Ev::Out { width: w2, port: p2, val } => !is_read && *w2 == width && *p2 == port && *val == value.wrapping_add(k as u32) & mask(width),
                        _ => false,
                    };
                    if !ok {
                        return Some(viol(&["C18"], "port-access", i, format!("access number {} of a long run through one {}-bit port object for port {port:#x} executed {e:x?}{}", k + 1, width * 8, if is_read { format!(" and returned {:x?}", got.get(k)) } else { format!(" for write({:#x})", value.wrapping_add(k as u32) & mask(width)) })));
                    }
                }
            }
            "read" | "write" => {
                let id = s["id"].as_u64().unwrap();
                let Some((o, port)) = objs.get_mut(&id) else { continue };
                let port = *port;
                let (acc, width) = o.kind();
                let value = s["value"].as_u64().unwrap_or(0) as u32;
                let is_read = op == "read";
                if (is_read && acc == 2) || (!is_read && acc == 1) {
                    continue;
                }
                let r = sut_call(op, || if is_read { o.read() } else { o.write(value).then_some(0) });
                st.calls += 1;
                let trace = std::mem::take(&mut world().cpu.trace);
                st.fold_trace(&trace);
                let got = match r {
                    Err(m) => return Some(viol(&["C18"], "panic", i, format!("port {op} panicked: {m}"))),
                    Ok(v) => v,
                };
                if trace.len() != 1 {
                    return Some(viol(&["C18"], "port-access-count", i, format!("{op} of a {}-bit port object for port {port:#x} executed {} port instruction(s): {trace:x?}", width * 8, trace.len())));
                }
                match (&trace[0], is_read) {
                    (Ev::In { width: w2, port: p2, val }, true) => {
                        if *w2 != width || *p2 != port {
                            return Some(viol(&["C18"], "port-access", i, format!("read of a {}-bit port object for port {port:#x} executed a {}-bit `in` on port {p2:#x}", width * 8, w2 * 8)));
                        }
                        if got != Some(*val) {
                            return Some(viol(&["C18"], "port-read-value", i, format!("device supplied {val:#x} on port {port:#x} ({}-bit) but read() returned {got:x?}", width * 8)));
                        }
                    }
                    (Ev::Out { width: w2, port: p2, val }, false) => {
                        if *w2 != width || *p2 != port {
                            return Some(viol(&["C18"], "port-access", i, format!("write to a {}-bit port object for port {port:#x} executed a {}-bit `out` on port {p2:#x}", width * 8, w2 * 8)));
                        }
                        if *val != value & mask(width) {
                            return Some(viol(&["C18"], "port-write-value", i, format!("write({:#x}) to port {port:#x} ({}-bit) put {val:#x} on the bus", value & mask(width), width * 8)));
                        }
                    }
                    (e, _) => return Some(viol(&["C18"], "port-access", i, format!("{op} of port {port:#x} executed {e:x?}"))),
                }
                st.distinct_key(&[is_read as u64, acc as u64, width as u64, (port == 0) as u64, (port == 0xffff) as u64, (port > 0xff) as u64, (value & mask(width) == mask(width)) as u64]);
            }
            _ => {}
        }
    }
    None
}

pub fn simplify(rp: &Replay) -> Vec<Replay> {
    let mut out = vec![];
    for (i, s) in rp.steps.iter().enumerate() {
        if s["op"] == "burst" {
            let n = s["n"].as_u64().unwrap_or(0);
            for c2 in [2u64, 256, 257, 65_536, 65_537] {
                if c2 < n {
                    let mut c = rp.clone();
                    c.steps[i]["n"] = json!(c2);
                    out.push(c);
                }
            }
        }
        if s["op"] == "write" && s["value"] != json!(1) {
            let mut c = rp.clone();
            c.steps[i]["value"] = json!(1);
            out.push(c);
        }
    }
    if rp.config["devices"] != json!([]) {
        let mut c = rp.clone();
        c.config["devices"] = Value::Array(vec![]);
        out.push(c);
    }
    out
}
