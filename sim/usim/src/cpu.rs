//! The simulated privileged half of the CPU: architectural register file, TLB, port bus,
//! interrupt flag / STI shadow / HLT, descriptor-table registers.  Written from the SDM / APM,
//! never calling the crate under test.

use crate::hwwalk::{self, PgSize};
use crate::physmem::PhysMem;
use std::collections::BTreeMap;

pub const MSR_EFER: u32 = 0xC000_0080;
pub const MSR_STAR: u32 = 0xC000_0081;
pub const MSR_LSTAR: u32 = 0xC000_0082;
pub const MSR_CSTAR: u32 = 0xC000_0083;
pub const MSR_SFMASK: u32 = 0xC000_0084;
pub const MSR_FS_BASE: u32 = 0xC000_0100;
pub const MSR_GS_BASE: u32 = 0xC000_0101;
pub const MSR_KERNEL_GS_BASE: u32 = 0xC000_0102;
pub const MSR_APIC_BASE: u32 = 0x1B;
pub const MSR_PAT: u32 = 0x277;
pub const MSR_U_CET: u32 = 0x6A0;
pub const MSR_S_CET: u32 = 0x6A2;

pub const CR4_PCIDE: u64 = 1 << 17;

/// One entry of the instruction / event trace of a simulated call.
#[derive(Clone, Debug, PartialEq, Eq)]
pub enum Ev {
    ReadCr { cr: u8, val: u64 },
    WriteCr { cr: u8, val: u64 },
    ReadDr { dr: u8, val: u64 },
    WriteDr { dr: u8, val: u64 },
    Rdmsr { idx: u32, val: u64 },
    Wrmsr { idx: u32, val: u64 },
    Xgetbv { ecx: u32, val: u64 },
    Xsetbv { ecx: u32, val: u64 },
    Invlpg { addr: u64 },
    Invpcid { kind: u64, pcid: u64, addr: u64 },
    Invlpgb { rax: u64, ecx: u32, edx: u32 },
    Tlbsync,
    Cli,
    Sti,
    Hlt,
    In { width: u8, port: u16, val: u32 },
    Out { width: u8, port: u16, val: u32 },
    Lgdt { base: u64, limit: u16, operand: u64 },
    Lidt { base: u64, limit: u16, operand: u64 },
    Ltr { sel: u16 },
    Swapgs,
    Retfq { rip: u64, cs: u64 },
    Iretq { rip: u64, cs: u64, rflags: u64, rsp: u64, ss: u64 },
    Pushfq { val: u64 },
    Popfq { val: u64 },
    ReadSreg { sreg: u8, val: u16 },
    WriteSreg { sreg: u8, val: u16 },
    RdBase { gs: bool, val: u64 },
    WrBase { gs: bool, val: u64 },
    Cpuid { leaf: u32, sub: u32 },
    /// the simulated CPU refused the instruction (what a #GP/#UD/#NP would be on silicon)
    Fault { vec: u8, why: String },
    /// an interrupt was delivered at this point
    Deliver { vector: u8 },
    Wake,
    /// HLT with IF=0 or with no interrupt left to arrive: the processor never wakes up
    Hang,
    /// harness marker inside the instruction stream (closure entry/exit etc.)
    Mark(u32),
}

#[derive(Clone, Copy, Debug, PartialEq, Eq)]
pub struct TlbEntry {
    pub frame: u64,
    pub size: PgSize,
    pub leaf_flags: u64,
    pub global: bool,
}

#[derive(Clone, Debug, Default)]
pub struct Tlb {
    /// (pcid, page start va) -> entry; page start is aligned to the entry's size
    pub map: BTreeMap<(u16, u64), TlbEntry>,
}

impl Tlb {
    pub fn lookup(&self, pcid: u16, va: u64) -> Option<(u64, TlbEntry)> {
        for sz in [PgSize::K4, PgSize::M2, PgSize::G1] {
            let start = va & !(sz.bytes() - 1);
            for key in [(pcid, start)] {
                if let Some(e) = self.map.get(&key) {
                    if e.size == sz {
                        return Some((start, *e));
                    }
                }
            }
        }
        // global entries match under any PCID
        for (&(_, start), e) in self.map.iter() {
            if e.global && va & !(e.size.bytes() - 1) == start {
                return Some((start, *e));
            }
        }
        None
    }
    pub fn insert(&mut self, pcid: u16, va: u64, e: TlbEntry) {
        self.map.insert((pcid, va & !(e.size.bytes() - 1)), e);
    }
    /// INVLPG: drop every entry (any size, global or not) of the current PCID covering `va`,
    /// and global entries covering it under any PCID.
    pub fn invlpg(&mut self, pcid: u16, va: u64) {
        self.map.retain(|&(p, start), e| {
            let covers = va & !(e.size.bytes() - 1) == start;
            !(covers && (p == pcid || e.global))
        });
    }
    pub fn flush_pcid_nonglobal(&mut self, pcid: u16) {
        self.map.retain(|&(p, _), e| !(p == pcid && !e.global));
    }
    pub fn flush_all_nonglobal(&mut self) {
        self.map.retain(|_, e| e.global);
    }
    pub fn flush_everything(&mut self) {
        self.map.clear();
    }
    pub fn flush_addr_pcid_nonglobal(&mut self, pcid: u16, va: u64) {
        self.map.retain(|&(p, start), e| {
            let covers = va & !(e.size.bytes() - 1) == start;
            !(covers && p == pcid && !e.global)
        });
    }
}

#[derive(Clone, Debug)]
pub enum Device {
    /// returns the last value written (masked to the access width)
    Latch(u32),
    /// returns successive values of a seeded stream
    Stream(u64),
    Counter(u32),
}

#[derive(Clone, Copy, Debug, Default, PartialEq, Eq)]
pub struct DtReg {
    pub base: u64,
    pub limit: u16,
}

#[derive(Clone, Copy, Debug, Default, PartialEq, Eq)]
pub struct TaskReg {
    pub sel: u16,
    pub base: u64,
    pub limit: u32,
    pub typ: u8,
    pub present: bool,
    pub dpl: u8,
}

#[derive(Clone, Debug)]
pub struct CpuidParams {
    pub invlpgb: bool,
    pub invlpgb_max: u16,
    pub nested: bool,
    pub nasid: u32,
}

#[derive(Clone, Debug)]
pub struct Cpu {
    pub cr0: u64,
    pub cr2: u64,
    pub cr3: u64,
    pub cr4: u64,
    pub cr8: u64,
    pub dr: [u64; 8],
    pub xcr0: u64,
    pub msr: BTreeMap<u32, u64>,
    /// RFLAGS bits the simulator owns (IF = bit 9); other bits come from the native register
    pub iflag: bool,
    pub sti_shadow: bool,
    pub halted: bool,
    /// selectors in sreg-encoding order: ES CS SS DS FS GS
    pub sel: [u16; 6],
    pub fs_base: u64,
    pub gs_base: u64,
    pub kernel_gs_base: u64,
    pub gdtr: DtReg,
    pub idtr: DtReg,
    pub tr: TaskReg,
    pub cpl: u8,
    pub tlb: Tlb,
    pub ports: BTreeMap<u16, Device>,
    pub default_dev_seed: u64,
    pub cpuid: CpuidParams,
    pub trace: Vec<Ev>,
    /// count of refused instructions in the current call
    pub faults: u32,
    /// system bits of RFLAGS other than IF as last written (IOPL, NT, AC, ID ...)
    pub rflags_sys: u64,
    /// logical time: deterministic simulator events (see `tick`)
    pub boundary: u64,
    /// address of the instruction in the STI shadow (no interrupt is taken before it)
    pub shadow_rip: Option<u64>,
    /// interrupts that will become pending: (boundary at which they arrive, vector)
    pub irq_pending: Vec<(u64, u8)>,
    /// (boundary, vector) of every delivered interrupt
    pub delivered: Vec<(u64, u8)>,
    pub hung: bool,
    /// set by harness code while it edits `trace` / `irq_pending` itself: the handler must not
    /// touch them at the same time (delivery is postponed by a few boundaries, which is legal)
    pub hold_irqs: bool,
    /// simulated interrupt service routine: runs (in the handler context) at every delivery
    pub isr_hook: Option<fn(u8)>,
}

impl Default for Cpu {
    fn default() -> Self {
        Cpu {
            cr0: 0x8005_0033,
            cr2: 0,
            cr3: 0,
            cr4: 0x20,
            cr8: 0,
            dr: [0, 0, 0, 0, 0, 0, 0xffff_0ff0, 0x400],
            xcr0: 1,
            msr: BTreeMap::new(),
            iflag: true,
            sti_shadow: false,
            halted: false,
            sel: [0x2b, 0x33, 0x2b, 0x2b, 0, 0],
            fs_base: 0,
            gs_base: 0,
            kernel_gs_base: 0,
            gdtr: DtReg::default(),
            idtr: DtReg::default(),
            tr: TaskReg::default(),
            cpl: 0,
            tlb: Tlb::default(),
            ports: BTreeMap::new(),
            default_dev_seed: 0,
            cpuid: CpuidParams { invlpgb: false, invlpgb_max: 0, nested: false, nasid: 0 },
            trace: Vec::new(),
            faults: 0,
            rflags_sys: 0,
            boundary: 0,
            shadow_rip: None,
            irq_pending: Vec::new(),
            delivered: Vec::new(),
            hung: false,
            hold_irqs: false,
            isr_hook: None,
        }
    }
}

pub fn canonical(v: u64) -> bool {
    hwwalk::is_canonical(v)
}

impl Cpu {
    pub fn pcid(&self) -> u16 {
        if self.cr4 & CR4_PCIDE != 0 {
            (self.cr3 & 0xfff) as u16
        } else {
            0
        }
    }
    pub fn root(&self) -> u64 {
        self.cr3 & hwwalk::ADDR
    }

    pub fn fault(&mut self, vec: u8, why: impl Into<String>) {
        self.faults += 1;
        self.trace.push(Ev::Fault { vec, why: why.into() });
    }

    // ---- control registers ------------------------------------------------------------------
    pub fn read_cr(&mut self, cr: u8) -> Option<u64> {
        let v = match cr {
            0 => self.cr0,
            2 => self.cr2,
            3 => self.cr3,
            4 => self.cr4,
            8 => self.cr8,
            _ => {
                self.fault(6, format!("mov from cr{cr}"));
                return None;
            }
        };
        self.trace.push(Ev::ReadCr { cr, val: v });
        Some(v)
    }

    pub fn write_cr(&mut self, cr: u8, val: u64) {
        self.trace.push(Ev::WriteCr { cr, val });
        match cr {
            0 => {
                if val >> 32 != 0 {
                    return self.fault(13, "cr0[63:32] != 0");
                }
                self.cr0 = val;
            }
            2 => self.cr2 = val,
            3 => {
                let pcide = self.cr4 & CR4_PCIDE != 0;
                let noflush = pcide && val >> 63 != 0;
                if !pcide && val >> 63 != 0 {
                    return self.fault(13, "cr3 bit 63 set without CR4.PCIDE");
                }
                self.cr3 = val & !(1 << 63);
                if !noflush {
                    if pcide {
                        let p = self.pcid();
                        self.tlb.flush_pcid_nonglobal(p);
                    } else {
                        self.tlb.flush_all_nonglobal();
                    }
                }
            }
            4 => {
                if val >> 32 != 0 {
                    return self.fault(13, "cr4[63:32] != 0");
                }
                if (self.cr4 ^ val) & (CR4_PCIDE | 0x80 | 0x20 | 0x10) != 0 {
                    self.tlb.flush_everything();
                }
                self.cr4 = val;
            }
            8 => self.cr8 = val & 0xf,
            _ => self.fault(6, format!("mov to cr{cr}")),
        }
    }

    pub fn read_dr(&mut self, dr: u8) -> Option<u64> {
        if dr > 7 {
            self.fault(6, "dr > 7");
            return None;
        }
        let v = self.dr[dr as usize];
        self.trace.push(Ev::ReadDr { dr, val: v });
        Some(v)
    }
    pub fn write_dr(&mut self, dr: u8, val: u64) {
        self.trace.push(Ev::WriteDr { dr, val });
        if dr > 7 {
            return self.fault(6, "dr > 7");
        }
        if (dr == 6 || dr == 7) && val >> 32 != 0 {
            return self.fault(13, "dr6/dr7[63:32] != 0");
        }
        self.dr[dr as usize] = val;
    }

    // ---- MSRs ------------------------------------------------------------------------------
    pub fn rdmsr(&mut self, idx: u32) -> u64 {
        let v = match idx {
            MSR_FS_BASE => self.fs_base,
            MSR_GS_BASE => self.gs_base,
            MSR_KERNEL_GS_BASE => self.kernel_gs_base,
            _ => *self.msr.get(&idx).unwrap_or(&0),
        };
        self.trace.push(Ev::Rdmsr { idx, val: v });
        v
    }
    pub fn wrmsr(&mut self, idx: u32, val: u64) {
        self.trace.push(Ev::Wrmsr { idx, val });
        match idx {
            MSR_FS_BASE | MSR_GS_BASE | MSR_KERNEL_GS_BASE | MSR_LSTAR | MSR_CSTAR => {
                if !canonical(val) {
                    return self.fault(13, format!("wrmsr {idx:#x}: non-canonical {val:#x}"));
                }
            }
            _ => {}
        }
        match idx {
            MSR_FS_BASE => self.fs_base = val,
            MSR_GS_BASE => self.gs_base = val,
            MSR_KERNEL_GS_BASE => self.kernel_gs_base = val,
            _ => {
                self.msr.insert(idx, val);
            }
        }
    }
    pub fn msr_raw(&self, idx: u32) -> u64 {
        match idx {
            MSR_FS_BASE => self.fs_base,
            MSR_GS_BASE => self.gs_base,
            MSR_KERNEL_GS_BASE => self.kernel_gs_base,
            _ => *self.msr.get(&idx).unwrap_or(&0),
        }
    }
    pub fn set_msr_raw(&mut self, idx: u32, val: u64) {
        match idx {
            MSR_FS_BASE => self.fs_base = val,
            MSR_GS_BASE => self.gs_base = val,
            MSR_KERNEL_GS_BASE => self.kernel_gs_base = val,
            _ => {
                self.msr.insert(idx, val);
            }
        }
    }

    // ---- XCR0 ------------------------------------------------------------------------------
    pub fn xgetbv(&mut self, ecx: u32) -> Option<u64> {
        self.trace.push(Ev::Xgetbv { ecx, val: self.xcr0 });
        if ecx != 0 {
            self.fault(13, "xgetbv ecx != 0");
            return None;
        }
        Some(self.xcr0)
    }
    pub fn xsetbv(&mut self, ecx: u32, val: u64) {
        self.trace.push(Ev::Xsetbv { ecx, val });
        if ecx != 0 {
            return self.fault(13, "xsetbv ecx != 0");
        }
        let b = |n: u32| val >> n & 1 != 0;
        let (x87, sse, avx, bndreg, bndcsr, opmask, zmmhi, hi16) = (b(0), b(1), b(2), b(3), b(4), b(5), b(6), b(7));
        if !x87 {
            return self.fault(13, "xsetbv: x87 clear");
        }
        if avx && !sse {
            return self.fault(13, "xsetbv: AVX without SSE");
        }
        if bndreg != bndcsr {
            return self.fault(13, "xsetbv: BNDREG != BNDCSR");
        }
        let n512 = [opmask, zmmhi, hi16].iter().filter(|x| **x).count();
        if n512 != 0 && n512 != 3 {
            return self.fault(13, "xsetbv: partial AVX-512 state");
        }
        if n512 == 3 && !avx {
            return self.fault(13, "xsetbv: AVX-512 without AVX");
        }
        self.xcr0 = val;
    }

    // ---- TLB maintenance -------------------------------------------------------------------
    pub fn invlpg(&mut self, addr: u64) {
        self.trace.push(Ev::Invlpg { addr });
        let p = self.pcid();
        self.tlb.invlpg(p, addr);
    }

    /// `kind` = register operand, `desc` = the two quadwords of the memory operand
    pub fn invpcid(&mut self, kind: u64, desc: [u64; 2]) {
        let pcid = desc[0];
        let addr = desc[1];
        self.trace.push(Ev::Invpcid { kind, pcid, addr });
        if kind > 3 {
            return self.fault(13, "invpcid type > 3");
        }
        if pcid >> 12 != 0 && kind <= 1 {
            return self.fault(13, "invpcid descriptor bits 63:12 of the first quadword set");
        }
        if kind <= 1 && self.cr4 & CR4_PCIDE == 0 && pcid != 0 {
            return self.fault(13, "invpcid with PCID != 0 while CR4.PCIDE = 0");
        }
        match kind {
            0 => {
                if !canonical(addr) {
                    return self.fault(13, "invpcid type 0 with non-canonical address");
                }
                self.tlb.flush_addr_pcid_nonglobal(pcid as u16, addr);
            }
            1 => self.tlb.flush_pcid_nonglobal(pcid as u16),
            2 => self.tlb.flush_everything(),
            _ => self.tlb.flush_all_nonglobal(),
        }
    }

    /// TLB fill: the CPU touches `va`
    pub fn touch(&mut self, mem: &PhysMem, va: u64) {
        let p = self.pcid();
        if self.tlb.lookup(p, va).is_some() {
            return;
        }
        if let Some(w) = hwwalk::walk(mem, self.root(), va) {
            self.tlb.insert(p, va, TlbEntry { frame: w.frame, size: w.size, leaf_flags: w.leaf_flags, global: w.global });
        }
    }

    // ---- interrupt flag --------------------------------------------------------------------
    pub fn cli(&mut self) {
        self.trace.push(Ev::Cli);
        self.iflag = false;
        self.sti_shadow = false;
    }
    /// `next_rip` = address of the instruction following STI (the one in the shadow)
    pub fn sti(&mut self, next_rip: u64) {
        self.trace.push(Ev::Sti);
        if !self.iflag {
            self.sti_shadow = true;
            self.shadow_rip = Some(next_rip);
        }
        self.iflag = true;
    }

    /// An instruction boundary: the instruction at `rip` is about to execute.  Pending interrupts
    /// are taken here if IF=1 and the boundary is not the one in the STI shadow.
    ///
    /// Logical time (`boundary`) does NOT advance here: the number of natively executed
    /// instructions between two simulator events depends on allocator state and code layout, so
    /// time is counted in deterministic events only (`tick`: emulated instructions and explicit
    /// harness yield points).  Delivery is still possible at every instruction boundary.
    pub fn at_boundary(&mut self, rip: u64) {
        if self.shadow_rip == Some(rip) {
            return;
        }
        self.shadow_rip = None;
        self.sti_shadow = false;
        if self.iflag && !self.hold_irqs {
            self.take_pending();
        }
    }

    /// one unit of logical time
    pub fn tick(&mut self) {
        self.boundary += 1;
    }

    fn take_pending(&mut self) {
        let now = self.boundary;
        let mut due: Vec<(u64, u8)> = self.irq_pending.iter().cloned().filter(|x| x.0 <= now).collect();
        due.sort();
        self.irq_pending.retain(|x| x.0 > now);
        for (_, v) in due {
            self.trace.push(Ev::Deliver { vector: v });
            self.delivered.push((now, v));
            if let Some(isr) = self.isr_hook {
                isr(v);
            }
        }
    }

    /// HLT: sleep until the next interrupt is taken.  With IF=0, or with nothing left to arrive,
    /// that never happens.
    pub fn hlt(&mut self) {
        self.trace.push(Ev::Hlt);
        self.shadow_rip = None;
        self.sti_shadow = false;
        if !self.iflag || self.irq_pending.is_empty() {
            self.hung = true;
            self.trace.push(Ev::Hang);
            return;
        }
        let first = self.irq_pending.iter().map(|x| x.0).min().unwrap();
        if first > self.boundary {
            self.boundary = first;
        }
        self.trace.push(Ev::Wake);
        self.take_pending();
    }

    pub fn swapgs(&mut self) {
        self.trace.push(Ev::Swapgs);
        core::mem::swap(&mut self.gs_base, &mut self.kernel_gs_base);
    }

    /// full simulated RFLAGS given the native arithmetic bits.  Bit 8 (TF) of `rflags_sys` is the
    /// *simulated* trap flag (a debugger single-stepping the kernel): it is only ever a bit of the
    /// image - the native TF belongs to the monitor and never shows.
    pub fn rflags_value(&self, native: u64) -> u64 {
        const ARITH: u64 = 0x8d5 | 0x400;
        (native & ARITH) | 2 | (self.rflags_sys & !ARITH & !0x200) | ((self.iflag as u64) << 9)
    }

    // ---- ports -----------------------------------------------------------------------------
    pub fn port_in(&mut self, width: u8, port: u16) -> u32 {
        let mask: u32 = match width {
            1 => 0xff,
            2 => 0xffff,
            _ => 0xffff_ffff,
        };
        let seed = self.default_dev_seed;
        let dev = self.ports.entry(port).or_insert_with(|| Device::Stream(crate::prng::mix2(seed, port as u64)));
        let v = match dev {
            Device::Latch(v) => *v,
            Device::Stream(s) => {
                let r = crate::prng::splitmix64(s);
                (r >> 16) as u32
            }
            Device::Counter(c) => {
                *c = c.wrapping_add(1);
                *c
            }
        } & mask;
        self.trace.push(Ev::In { width, port, val: v });
        v
    }
    pub fn port_out(&mut self, width: u8, port: u16, val: u32) {
        self.trace.push(Ev::Out { width, port, val });
        if let Some(Device::Latch(v)) = self.ports.get_mut(&port) {
            *v = val;
        }
    }
}
