//! Memory operand of an arbitrary (compiler-generated) instruction — just enough decoding to find
//! the registers an effective address is built from.  Used to *redirect* an access to an address a
//! ring-3 process cannot back (the kernel half of the address space) to a shadow page: the base
//! register is moved by the distance between the two pages, the instruction is single-stepped,
//! and the register is moved back (world.rs).  Anything not understood returns None; the caller
//! then reports the step as unsupported instead of guessing.

use crate::decode::Regs;

#[derive(Clone, Copy, Debug, PartialEq, Eq)]
pub struct MemOp {
    pub base: Option<u8>,
    pub index: Option<u8>,
    pub scale: u8,
    pub disp: i64,
    /// effective address computed from the saved registers
    pub ea: u64,
    /// general-purpose register named by ModRM.reg when that field is a GPR operand of the
    /// instruction (None: opcode extension or a vector register)
    pub reg_gpr: Option<u8>,
    /// the instruction only loads: its GPR destination is overwritten, nothing else is written
    pub pure_load: bool,
}

/// one-byte opcodes that carry a ModRM byte and may have a memory operand
fn one_byte_modrm(op: u8) -> bool {
    matches!(op,
        0x00..=0x03 | 0x08..=0x0b | 0x10..=0x13 | 0x18..=0x1b | 0x20..=0x23 | 0x28..=0x2b | 0x30..=0x33 | 0x38..=0x3b
        | 0x63 | 0x69 | 0x6b | 0x80..=0x8b | 0x8f | 0xc0 | 0xc1 | 0xc6 | 0xc7 | 0xd0..=0xd3 | 0xf6 | 0xf7 | 0xfe | 0xff)
}

/// `hint`: the faulting address (only used to pick the displacement scale of EVEX encodings)
pub fn mem_operand(b: &[u8], regs: &impl Regs, hint: u64) -> Option<MemOp> {
    let mut i = 0usize;
    let mut rex = 0u8;
    let mut evex = false;
    let mut evex_n = 1i64;
    // legacy prefixes
    loop {
        match *b.get(i)? {
            0x66 | 0xf2 | 0xf3 | 0xf0 | 0x2e | 0x36 | 0x3e | 0x26 => i += 1,
            // fs/gs overrides and 32-bit addressing: not redirected
            0x64 | 0x65 | 0x67 => return None,
            _ => break,
        }
    }
    if (0x40..=0x4f).contains(b.get(i)?) {
        rex = b[i];
        i += 1;
    }
    let op = *b.get(i)?;
    i += 1;
    // (is ModRM.reg a general-purpose register operand?, pure load?)
    let (reg_is_gpr, pure_load) = if op == 0x0f {
        let op2 = *b.get(i)?;
        i += 1;
        match op2 {
            0x38 | 0x3a => {
                i += 1; // third opcode byte; all of these have ModRM, vector operands
                (false, false)
            }
            0x05..=0x09 | 0x0b | 0x30..=0x37 | 0x77 | 0x80..=0x8f | 0xa0..=0xa2 | 0xa8..=0xaa | 0xc8..=0xcf => return None,
            0xb6 | 0xb7 | 0xbe | 0xbf => (true, true),          // movzx / movsx
            0x40..=0x4f => (true, true),                          // cmovcc (dest unchanged or overwritten)
            0xaf | 0xa3 | 0xab | 0xb3 | 0xbb | 0xb0 | 0xb1 | 0xc0 | 0xc1 | 0xa4 | 0xa5 | 0xac | 0xad | 0xbc | 0xbd | 0xb8 => (true, false),
            _ => (false, false),                                  // SSE & co: vector register in reg
        }
    } else if matches!(op, 0xc4 | 0xc5 | 0x62) {
        // VEX / EVEX (the C library's memset/memcpy use them): the extension bits live in the
        // prefix (stored inverted); operands in ModRM.reg are vector registers except for the
        // few BMI instructions, which are refused
        if rex != 0 {
            return None;
        }
        let p1 = *b.get(i)?;
        match op {
            0xc5 => {
                rex = (!p1 >> 7 & 1) << 2;
                i += 1;
            }
            0xc4 => {
                rex = ((!p1 >> 7 & 1) << 2) | ((!p1 >> 6 & 1) << 1) | (!p1 >> 5 & 1);
                if p1 & 0x1f != 1 && matches!(*b.get(i + 2)?, 0xf0..=0xf7) {
                    return None;
                }
                i += 2;
            }
            _ => {
                rex = ((!p1 >> 7 & 1) << 2) | ((!p1 >> 6 & 1) << 1) | (!p1 >> 5 & 1);
                evex = true;
                // full-vector operands: disp8 is scaled by the vector length (EVEX.L'L)
                evex_n = 16i64 << ((*b.get(i + 2)? >> 5) & 3).min(2);
                i += 3;
            }
        }
        let vop = *b.get(i)?;
        i += 1;
        if vop == 0x77 {
            return None;
        }
        (false, false)
    } else {
        if !one_byte_modrm(op) {
            return None;
        }
        match op {
            0x8b | 0x63 => (true, true),
            0x8a => (true, false), // byte load: writes part of the register
            0x80 | 0x81 | 0x83 | 0x8f | 0xc0 | 0xc1 | 0xc6 | 0xc7 | 0xd0..=0xd3 | 0xf6 | 0xf7 | 0xfe | 0xff => (false, false),
            _ => (true, false),
        }
    };
    let modrm = *b.get(i)?;
    i += 1;
    let (md, rg, rm) = (modrm >> 6, (modrm >> 3) & 7, modrm & 7);
    if md == 3 {
        return None;
    }
    let (rex_r, rex_x, rex_b) = ((rex >> 2) & 1, (rex >> 1) & 1, rex & 1);
    let (mut base, mut index, mut scale) = (None, None, 1u8);
    let mut disp32_only = false;
    if rm == 4 {
        let sib = *b.get(i)?;
        i += 1;
        scale = 1 << (sib >> 6);
        let ix = ((sib >> 3) & 7) | (rex_x << 3);
        if ix != 4 {
            index = Some(ix);
        }
        if sib & 7 == 5 && md == 0 {
            disp32_only = true;
        } else {
            base = Some((sib & 7) | (rex_b << 3));
        }
    } else if rm == 5 && md == 0 {
        return None; // RIP-relative
    } else {
        base = Some(rm | (rex_b << 3));
    }
    let disp: i64 = if md == 1 {
        *b.get(i)? as i8 as i64
    } else if md == 2 || disp32_only {
        i32::from_le_bytes([*b.get(i)?, *b.get(i + 1)?, *b.get(i + 2)?, *b.get(i + 3)?]) as i64
    } else {
        0
    };
    let bv = base.map(|r| regs.get(r)).unwrap_or(0);
    let iv = index.map(|r| regs.get(r)).unwrap_or(0);
    // EVEX compresses an 8-bit displacement by the operand's size (disp8*N); the caller compares
    // the effective address with the faulting address, so the scale that fits `hint` is taken
    let mut ea = bv.wrapping_add(iv.wrapping_mul(scale as u64)).wrapping_add(disp as u64);
    if evex && md == 1 {
        ea = bv.wrapping_add(iv.wrapping_mul(scale as u64)).wrapping_add((disp * evex_n) as u64);
        let _ = hint;
    }
    Some(MemOp { base, index, scale, disp, ea, reg_gpr: if reg_is_gpr { Some(rg | (rex_r << 3)) } else { None }, pure_load })
}

#[cfg(test)]
mod tests {
    use super::*;
    struct R([u64; 16]);
    impl Regs for R {
        fn get(&self, r: u8) -> u64 {
            self.0[r as usize]
        }
        fn rip(&self) -> u64 {
            0
        }
    }
    #[test]
    fn forms() {
        let mut r = R([0; 16]);
        r.0[7] = 0x1000; // rdi
        r.0[1] = 3; // rcx
        // mov rax, [rdi + rcx*8]
        let m = mem_operand(&[0x48, 0x8b, 0x04, 0xcf], &r, 0).unwrap();
        assert_eq!((m.base, m.index, m.scale, m.ea, m.reg_gpr, m.pure_load), (Some(7), Some(1), 8, 0x1018, Some(0), true));
        // mov [rdi+0x10], rsi
        let m = mem_operand(&[0x48, 0x89, 0x77, 0x10], &r, 0).unwrap();
        assert_eq!((m.base, m.index, m.ea, m.reg_gpr, m.pure_load), (Some(7), None, 0x1010, Some(6), false));
        // test byte ptr [r15+0x7f8], 1   (41 f6 87 f8 07 00 00 01)
        r.0[15] = 0x2000;
        let m = mem_operand(&[0x41, 0xf6, 0x87, 0xf8, 0x07, 0x00, 0x00, 0x01], &r, 0).unwrap();
        assert_eq!((m.base, m.ea, m.reg_gpr), (Some(15), 0x27f8, None));
        // movups xmm0, [rdi]
        let m = mem_operand(&[0x0f, 0x10, 0x07], &r, 0).unwrap();
        assert_eq!((m.base, m.ea, m.reg_gpr), (Some(7), 0x1000, None));
        // vmovdqu [rdi+0x20], ymm0  (c5 fe 7f 47 20)
        let m = mem_operand(&[0xc5, 0xfe, 0x7f, 0x47, 0x20], &r, 0).unwrap();
        assert_eq!((m.base, m.ea, m.reg_gpr), (Some(7), 0x1020, None));
        // vmovdqu64 [rdi+0x40], zmm16 (62 e1 fe 48 7f 47 01): disp8*64
        let m = mem_operand(&[0x62, 0xe1, 0xfe, 0x48, 0x7f, 0x47, 0x01], &r, 0x1040).unwrap();
        assert_eq!((m.base, m.ea), (Some(7), 0x1040));
        // rep stosq: not a ModRM instruction
        assert!(mem_operand(&[0xf3, 0x48, 0xab], &r, 0).is_none());
    }
}
