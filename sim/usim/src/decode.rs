//! Decoder for the small fixed set of instruction encodings the crate's `asm!` blocks emit
//! (DESIGN.md §4 / Appendix A).  Operands are resolved against the saved register context.

#[derive(Clone, Copy, Debug, PartialEq, Eq)]
pub enum Kind {
    MovFromCr { cr: u8, gpr: u8 },
    MovToCr { cr: u8, gpr: u8 },
    MovFromDr { dr: u8, gpr: u8 },
    MovToDr { dr: u8, gpr: u8 },
    Rdmsr,
    Wrmsr,
    Xgetbv,
    Xsetbv,
    Invlpg { addr: u64 },
    Invpcid { kind_gpr: u8, addr: u64 },
    Invlpgb,
    Tlbsync,
    Cli,
    Sti,
    Hlt,
    /// width in bytes: 1, 2, 4
    In { width: u8 },
    Out { width: u8 },
    Lgdt { addr: u64 },
    Lidt { addr: u64 },
    Sgdt { addr: u64 },
    Sidt { addr: u64 },
    Ltr { gpr: u8 },
    /// `ltr m16`
    LtrMem { addr: u64 },
    Swapgs,
    Retfq,
    Iretq,
    Pushfq,
    Popfq,
    /// opsize: 2, 4 or 8 bytes written to the destination register
    MovFromSreg { sreg: u8, gpr: u8, opsize: u8 },
    MovToSreg { sreg: u8, gpr: u8 },
    /// `mov m16, sreg` / `mov sreg, m16`: the memory forms always move 16 bits
    MovSregToMem { sreg: u8, addr: u64 },
    MovMemToSreg { sreg: u8, addr: u64 },
    /// `push fs|gs` / `pop fs|gs` (the only segment pushes that exist in 64-bit mode)
    PushSreg { sreg: u8, opsize: u8 },
    PopSreg { sreg: u8, opsize: u8 },
    /// which: 0 rdfsbase 1 rdgsbase 2 wrfsbase 3 wrgsbase
    FsGsBase { which: u8, gpr: u8, wide: bool },
    Cpuid,
    Int3,
}

#[derive(Clone, Copy, Debug, PartialEq, Eq)]
pub struct Insn {
    pub len: usize,
    pub kind: Kind,
}

/// x86 register number (0=rax 1=rcx 2=rdx 3=rbx 4=rsp 5=rbp 6=rsi 7=rdi 8..15) → value
pub trait Regs {
    fn get(&self, r: u8) -> u64;
    fn rip(&self) -> u64;
}

struct Cur<'a> {
    b: &'a [u8],
    i: usize,
}
impl<'a> Cur<'a> {
    fn next(&mut self) -> Option<u8> {
        let v = *self.b.get(self.i)?;
        self.i += 1;
        Some(v)
    }
    fn peek(&self) -> Option<u8> {
        self.b.get(self.i).copied()
    }
    fn i8(&mut self) -> Option<i64> {
        Some(self.next()? as i8 as i64)
    }
    fn i32(&mut self) -> Option<i64> {
        let mut v = 0u32;
        for k in 0..4 {
            v |= (self.next()? as u32) << (8 * k);
        }
        Some(v as i32 as i64)
    }
}

struct ModRm {
    md: u8,
    reg: u8,
    rm: u8,
    /// effective address for memory forms
    ea: Option<u64>,
}

fn modrm(c: &mut Cur, rex: u8, regs: &dyn Regs) -> Option<ModRm> {
    let m = c.next()?;
    let md = m >> 6;
    let reg = ((m >> 3) & 7) | ((rex & 4) << 1);
    let rm_lo = m & 7;
    if md == 3 {
        return Some(ModRm { md, reg, rm: rm_lo | ((rex & 1) << 3), ea: None });
    }
    let mut ea: i64;
    if rm_lo == 4 {
        let sib = c.next()?;
        let scale = sib >> 6;
        let index = ((sib >> 3) & 7) | ((rex & 2) << 2);
        let base = (sib & 7) | ((rex & 1) << 3);
        ea = 0;
        if (sib & 7) == 5 && md == 0 {
            ea = c.i32()?;
        } else {
            ea = ea.wrapping_add(regs.get(base) as i64);
        }
        if index != 4 {
            ea = ea.wrapping_add((regs.get(index) as i64) << scale);
        }
    } else if rm_lo == 5 && md == 0 {
        // rip-relative: relative to the end of the instruction; fixed up by the caller
        let d = c.i32()?;
        return Some(ModRm { md, reg, rm: 0xff, ea: Some(d as u64) });
    } else {
        ea = regs.get(rm_lo | ((rex & 1) << 3)) as i64;
    }
    match md {
        1 => ea = ea.wrapping_add(c.i8()?),
        2 => ea = ea.wrapping_add(c.i32()?),
        _ => {}
    }
    Some(ModRm { md, reg, rm: rm_lo | ((rex & 1) << 3), ea: Some(ea as u64) })
}

/// Decode the instruction at the start of `bytes`.  `None` = not one of ours.
pub fn decode(bytes: &[u8], regs: &dyn Regs) -> Option<Insn> {
    let mut c = Cur { b: bytes, i: 0 };
    let (mut p66, mut pf3, mut _pf2) = (false, false, false);
    // address-size override: effective addresses are formed from the low 32 bits
    let mut p67 = false;
    loop {
        match c.peek()? {
            0x67 => p67 = true,
            0x66 => p66 = true,
            0xf3 => pf3 = true,
            0xf2 => _pf2 = true,
            0x2e | 0x36 | 0x3e | 0x26 | 0x64 | 0x65 => {}
            _ => break,
        }
        c.i += 1;
    }
    let mut rex = 0u8;
    if let Some(b) = c.peek() {
        if b & 0xf0 == 0x40 {
            rex = b;
            c.i += 1;
        }
    }
    let rexw = rex & 8 != 0;
    let op = c.next()?;
    let fix = |c: &Cur, m: &ModRm, regs: &dyn Regs| -> Option<u64> {
        let ea = m.ea?;
        let ea = if m.rm == 0xff { regs.rip().wrapping_add(c.i as u64).wrapping_add(ea) } else { ea };
        Some(if p67 { ea & 0xffff_ffff } else { ea })
    };
    let kind = match op {
        0xfa => Kind::Cli,
        0xfb => Kind::Sti,
        0xf4 => Kind::Hlt,
        0xcc => Kind::Int3,
        0xec => Kind::In { width: 1 },
        0xed => Kind::In { width: if p66 { 2 } else { 4 } },
        0xee => Kind::Out { width: 1 },
        0xef => Kind::Out { width: if p66 { 2 } else { 4 } },
        0x9c => Kind::Pushfq,
        0x9d => Kind::Popfq,
        0xcb if rexw => Kind::Retfq,
        0xcf if rexw => Kind::Iretq,
        0x8c => {
            let m = modrm(&mut c, rex, regs)?;
            if (m.reg & 7) > 5 {
                return None;
            }
            if m.md != 3 {
                let addr = fix(&c, &m, regs)?;
                return Some(Insn { kind: Kind::MovSregToMem { sreg: m.reg & 7, addr }, len: c.i });
            }
            Kind::MovFromSreg { sreg: m.reg & 7, gpr: m.rm, opsize: if rexw { 8 } else if p66 { 2 } else { 4 } }
        }
        0x8e => {
            let m = modrm(&mut c, rex, regs)?;
            if (m.reg & 7) > 5 {
                return None;
            }
            if m.md != 3 {
                let addr = fix(&c, &m, regs)?;
                return Some(Insn { kind: Kind::MovMemToSreg { sreg: m.reg & 7, addr }, len: c.i });
            }
            Kind::MovToSreg { sreg: m.reg & 7, gpr: m.rm }
        }
        0x0f => {
            let op2 = c.next()?;
            match op2 {
                0x20 | 0x21 | 0x22 | 0x23 => {
                    // mod bits are ignored by the CPU for these; reg = CR/DR number, rm = gpr
                    let m = c.next()?;
                    let n = ((m >> 3) & 7) | ((rex & 4) << 1);
                    let gpr = (m & 7) | ((rex & 1) << 3);
                    match op2 {
                        0x20 => Kind::MovFromCr { cr: n, gpr },
                        0x22 => Kind::MovToCr { cr: n, gpr },
                        0x21 => Kind::MovFromDr { dr: n, gpr },
                        _ => Kind::MovToDr { dr: n, gpr },
                    }
                }
                0xa0 => Kind::PushSreg { sreg: 4, opsize: if p66 { 2 } else { 8 } },
                0xa8 => Kind::PushSreg { sreg: 5, opsize: if p66 { 2 } else { 8 } },
                0xa1 => Kind::PopSreg { sreg: 4, opsize: if p66 { 2 } else { 8 } },
                0xa9 => Kind::PopSreg { sreg: 5, opsize: if p66 { 2 } else { 8 } },
                0x30 => Kind::Wrmsr,
                0x32 => Kind::Rdmsr,
                0xa2 => Kind::Cpuid,
                0x00 => {
                    let m = modrm(&mut c, rex, regs)?;
                    if (m.reg & 7) == 3 && m.md == 3 {
                        Kind::Ltr { gpr: m.rm }
                    } else if (m.reg & 7) == 3 {
                        let addr = fix(&c, &m, regs)?;
                        Kind::LtrMem { addr }
                    } else {
                        return None;
                    }
                }
                0x01 => {
                    let b = c.peek()?;
                    match b {
                        0xd0 => {
                            c.i += 1;
                            Kind::Xgetbv
                        }
                        0xd1 => {
                            c.i += 1;
                            Kind::Xsetbv
                        }
                        0xf8 => {
                            c.i += 1;
                            Kind::Swapgs
                        }
                        0xfe => {
                            c.i += 1;
                            Kind::Invlpgb
                        }
                        0xff => {
                            c.i += 1;
                            Kind::Tlbsync
                        }
                        _ => {
                            let m = modrm(&mut c, rex, regs)?;
                            if m.md == 3 {
                                return None;
                            }
                            let addr = fix(&c, &m, regs)?;
                            match m.reg & 7 {
                                0 => Kind::Sgdt { addr },
                                1 => Kind::Sidt { addr },
                                2 => Kind::Lgdt { addr },
                                3 => Kind::Lidt { addr },
                                7 => Kind::Invlpg { addr },
                                _ => return None,
                            }
                        }
                    }
                }
                0x38 if p66 => {
                    let op3 = c.next()?;
                    if op3 != 0x82 {
                        return None;
                    }
                    let m = modrm(&mut c, rex, regs)?;
                    if m.md == 3 {
                        return None;
                    }
                    let addr = fix(&c, &m, regs)?;
                    Kind::Invpcid { kind_gpr: m.reg, addr }
                }
                0xae if pf3 => {
                    let m = modrm(&mut c, rex, regs)?;
                    if m.md != 3 || (m.reg & 7) > 3 {
                        return None;
                    }
                    Kind::FsGsBase { which: m.reg & 7, gpr: m.rm, wide: rexw }
                }
                _ => return None,
            }
        }
        _ => return None,
    };
    Some(Insn { len: c.i, kind })
}

#[cfg(test)]
mod tests {
    use super::*;
    struct R;
    impl Regs for R {
        fn get(&self, r: u8) -> u64 {
            0x1000 * (r as u64 + 1)
        }
        fn rip(&self) -> u64 {
            0x40_0000
        }
    }
    #[test]
    fn basic() {
        assert_eq!(decode(&[0x0f, 0x20, 0xd8], &R).unwrap().kind, Kind::MovFromCr { cr: 3, gpr: 0 });
        assert_eq!(decode(&[0x41, 0x0f, 0x22, 0xd9], &R).unwrap().kind, Kind::MovToCr { cr: 3, gpr: 9 });
        assert_eq!(decode(&[0x0f, 0x01, 0x38], &R).unwrap().kind, Kind::Invlpg { addr: 0x1000 });
        assert_eq!(decode(&[0x66, 0xed], &R).unwrap().kind, Kind::In { width: 2 });
        assert_eq!(decode(&[0x48, 0xcf], &R).unwrap().kind, Kind::Iretq);
        assert_eq!(decode(&[0x0f, 0x01, 0x10], &R).unwrap().kind, Kind::Lgdt { addr: 0x1000 });
        assert_eq!(decode(&[0x66, 0x0f, 0x38, 0x82, 0x01], &R).unwrap().kind, Kind::Invpcid { kind_gpr: 0, addr: 0x2000 });
        assert_eq!(decode(&[0xf3, 0x48, 0x0f, 0xae, 0xc0], &R).unwrap().kind, Kind::FsGsBase { which: 0, gpr: 0, wide: true });
        assert_eq!(decode(&[0x0f, 0x00, 0xd8], &R).unwrap().kind, Kind::Ltr { gpr: 0 });
        assert!(matches!(decode(&[0x0f, 0x00, 0x18], &R).unwrap().kind, Kind::LtrMem { .. }));
        assert_eq!(decode(&[0x8c, 0xc8], &R).unwrap().kind, Kind::MovFromSreg { sreg: 1, gpr: 0, opsize: 4 });
        // mov word ptr [rax], cs / mov ds, word ptr [rcx] / push fs / pop gs
        assert!(matches!(decode(&[0x8c, 0x08], &R).unwrap().kind, Kind::MovSregToMem { sreg: 1, .. }));
        assert!(matches!(decode(&[0x8e, 0x19], &R).unwrap().kind, Kind::MovMemToSreg { sreg: 3, .. }));
        assert_eq!(decode(&[0x0f, 0xa0], &R).unwrap().kind, Kind::PushSreg { sreg: 4, opsize: 8 });
        assert_eq!(decode(&[0x0f, 0xa9], &R).unwrap().kind, Kind::PopSreg { sreg: 5, opsize: 8 });
    }
}
