//! usim — shared simulation infrastructure (PRNG, simulated physical memory, independent page
//! walker, instruction decoder, simulated CPU state, the synchronous-signal seam).
pub mod cpu;
pub mod decode;
pub mod desc;
pub mod driver;
pub mod hwwalk;
pub mod memop;
pub mod physmem;
pub mod prng;
pub mod world;
