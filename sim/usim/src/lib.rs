pub mod prng;
