//! The process-global simulated world and the synchronous-signal seam (DESIGN.md §1.1):
//! privileged instructions trap (SIGSEGV si_code=SI_KERNEL / SIGILL) and are emulated against
//! `Cpu`; page faults on recursive page-table addresses are resolved by the software MMU; page
//! faults inside the offset window are accesses to physical memory the mapper must not touch.

use crate::cpu::{Cpu, Ev};
use crate::decode::{self, Kind, Regs};
use crate::hwwalk;
use crate::physmem::{self, PhysMem};
use std::collections::BTreeSet;

#[derive(Clone, Debug, PartialEq, Eq)]
pub struct MmuFault {
    pub va: u64,
    /// physical page the access resolved to (None: the walk ended not-present)
    pub pa: Option<u64>,
    pub allowed: bool,
    pub write: bool,
}

#[derive(Clone, Debug, PartialEq, Eq)]
pub struct BadTouch {
    pub view: &'static str,
    pub pa: u64,
    pub write: bool,
}

pub struct World {
    pub mem: PhysMem,
    pub cpu: Cpu,
    /// offset view: [base, base+len) is the physical-memory window
    pub offset_win: Option<(u64, u64)>,
    pub offset_exposed: BTreeSet<u64>,
    /// recursive view: P4 slot resolved by the software MMU
    pub rec_slot: Option<u16>,
    pub rec_aliases: Vec<u64>,
    /// frames the system under test may touch right now (tables of the hierarchy + frames
    /// handed out by the allocator during the current call)
    pub allowed: BTreeSet<u64>,
    pub mmu_log: Vec<MmuFault>,
    pub bad: Vec<BadTouch>,
    /// inside a call into the crate under test
    pub in_sut: bool,
    /// per-call cap on trapped instructions (termination guard)
    pub trap_budget: u64,
    pub traps: u64,
    pub depth: u32,
    /// label printed if the process has to die inside the handler
    pub ctx_label: [u8; 96],
    pub ctx_len: usize,
    /// optional: monitor-mode hook (cpusim); returns true if handled
    pub on_sigtrap: Option<unsafe fn(&mut World, &mut Ctx) -> bool>,
    /// optional: extra instruction semantics (cpusim: descriptor tables, delivery)
    pub ext: Option<unsafe fn(&mut World, &mut Ctx, Kind, usize) -> bool>,
}

static mut WORLD: *mut World = core::ptr::null_mut();

/// # Safety: single-threaded process; the handler runs synchronously on the same thread.
#[allow(clippy::mut_from_ref)]
pub fn world() -> &'static mut World {
    unsafe {
        if WORLD.is_null() {
            let w = Box::new(World {
                mem: PhysMem::new(),
                cpu: Cpu::default(),
                offset_win: None,
                offset_exposed: BTreeSet::new(),
                rec_slot: None,
                rec_aliases: Vec::new(),
                allowed: BTreeSet::new(),
                mmu_log: Vec::new(),
                bad: Vec::new(),
                in_sut: false,
                trap_budget: 1 << 20,
                traps: 0,
                depth: 0,
                ctx_label: [0; 96],
                ctx_len: 0,
                on_sigtrap: None,
                ext: None,
            });
            WORLD = Box::into_raw(w);
            install_handlers();
        }
        &mut *WORLD
    }
}

pub struct Ctx {
    pub uc: *mut libc::ucontext_t,
}

const GREG: [usize; 16] = [
    libc::REG_RAX as usize,
    libc::REG_RCX as usize,
    libc::REG_RDX as usize,
    libc::REG_RBX as usize,
    libc::REG_RSP as usize,
    libc::REG_RBP as usize,
    libc::REG_RSI as usize,
    libc::REG_RDI as usize,
    libc::REG_R8 as usize,
    libc::REG_R9 as usize,
    libc::REG_R10 as usize,
    libc::REG_R11 as usize,
    libc::REG_R12 as usize,
    libc::REG_R13 as usize,
    libc::REG_R14 as usize,
    libc::REG_R15 as usize,
];

impl Ctx {
    pub fn set(&mut self, r: u8, v: u64) {
        unsafe { (*self.uc).uc_mcontext.gregs[GREG[r as usize & 15]] = v as i64 }
    }
    pub fn set_rip(&mut self, v: u64) {
        unsafe { (*self.uc).uc_mcontext.gregs[libc::REG_RIP as usize] = v as i64 }
    }
    pub fn eflags(&self) -> u64 {
        unsafe { (*self.uc).uc_mcontext.gregs[libc::REG_EFL as usize] as u64 }
    }
    pub fn set_eflags(&mut self, v: u64) {
        unsafe { (*self.uc).uc_mcontext.gregs[libc::REG_EFL as usize] = v as i64 }
    }
    pub fn err(&self) -> u64 {
        unsafe { (*self.uc).uc_mcontext.gregs[libc::REG_ERR as usize] as u64 }
    }
    pub fn rsp(&self) -> u64 {
        self.get(4)
    }
}

impl Regs for Ctx {
    fn get(&self, r: u8) -> u64 {
        unsafe { (*self.uc).uc_mcontext.gregs[GREG[r as usize & 15]] as u64 }
    }
    fn rip(&self) -> u64 {
        unsafe { (*self.uc).uc_mcontext.gregs[libc::REG_RIP as usize] as u64 }
    }
}

fn raw_write(s: &[u8]) {
    unsafe {
        libc::write(2, s.as_ptr() as *const libc::c_void, s.len());
    }
}

fn hex(mut v: u64, out: &mut [u8; 18]) -> &[u8] {
    out[0] = b'0';
    out[1] = b'x';
    for i in (0..16).rev() {
        let d = (v & 0xf) as u8;
        out[2 + i] = if d < 10 { b'0' + d } else { b'a' + d - 10 };
        v >>= 4;
    }
    &out[..]
}

/// Exit code 3: a fault the simulator cannot attribute (wild access of the system under test or a
/// harness bug).  The driver decides which by replaying the seed in an isolated child.
pub fn die_in_handler(w: &World, what: &str, rip: u64, addr: u64) -> ! {
    let mut b = [0u8; 18];
    raw_write(b"FATAL-FAULT ");
    raw_write(what.as_bytes());
    raw_write(b" rip=");
    raw_write(hex(rip, &mut b));
    raw_write(b" addr=");
    raw_write(hex(addr, &mut b));
    raw_write(b" in_sut=");
    raw_write(if w.in_sut { b"1" } else { b"0" });
    raw_write(b" ctx=");
    raw_write(&w.ctx_label[..w.ctx_len]);
    raw_write(b"\n");
    unsafe { libc::_exit(if w.in_sut { 3 } else { 2 }) }
}

impl World {
    pub fn set_label(&mut self, s: &str) {
        let n = s.len().min(96);
        self.ctx_label[..n].copy_from_slice(&s.as_bytes()[..n]);
        self.ctx_len = n;
    }

    // ---- offset view -------------------------------------------------------------------------
    pub fn offset_open(&mut self, base: u64, len: u64) -> bool {
        if !physmem::reserve_noreplace(base, len) {
            return false;
        }
        self.offset_win = Some((base, len));
        self.offset_exposed.clear();
        true
    }
    pub fn offset_close(&mut self) {
        if let Some((base, len)) = self.offset_win.take() {
            physmem::unmap(base, len);
        }
        self.offset_exposed.clear();
    }
    pub fn offset_expose(&mut self, pa: u64) {
        if let Some((base, len)) = self.offset_win {
            if pa < len && self.offset_exposed.insert(pa) {
                self.mem.commit(pa);
                self.mem.map_at(base + pa, pa);
            }
        }
    }
    pub fn offset_hide(&mut self, pa: u64) {
        if let Some((base, _)) = self.offset_win {
            if self.offset_exposed.remove(&pa) {
                physmem::protect_none(base + pa, 4096);
            }
        }
    }

    // ---- recursive view ----------------------------------------------------------------------
    pub fn rec_drop_aliases(&mut self) {
        for va in self.rec_aliases.drain(..) {
            physmem::unmap(va, 4096);
        }
    }

    unsafe fn page_fault(&mut self, addr: u64, write: bool) -> bool {
        if let Some((base, len)) = self.offset_win {
            if addr >= base && addr - base < len {
                let pa = (addr - base) & !0xfff;
                let ok = self.allowed.contains(&pa);
                if !ok {
                    self.bad.push(BadTouch { view: "offset", pa, write });
                }
                // make it accessible so that the call can finish and be reported
                self.offset_exposed.insert(pa);
                self.mem.commit(pa);
                self.mem.map_at(base + pa, pa);
                return true;
            }
        }
        if let Some(r) = self.rec_slot {
            if hwwalk::idx(addr, 4) == r as u64 && addr >> 47 == 0 {
                let w = hwwalk::walk(&self.mem, self.cpu.root(), addr);
                match w {
                    None => {
                        self.mmu_log.push(MmuFault { va: addr, pa: None, allowed: false, write });
                        // a genuine page fault of the system under test: give it a scratch page of
                        // zeros so that the call can finish and be reported
                        let va = addr & !0xfff;
                        let r = libc::mmap(
                            va as *mut libc::c_void,
                            4096,
                            libc::PROT_READ | libc::PROT_WRITE,
                            libc::MAP_PRIVATE | libc::MAP_ANONYMOUS | libc::MAP_FIXED,
                            -1,
                            0,
                        );
                        if r == libc::MAP_FAILED {
                            return false;
                        }
                        self.rec_aliases.push(va);
                        return true;
                    }
                    Some(wk) => {
                        let pa = wk.pa & !0xfff;
                        let ok = self.allowed.contains(&pa);
                        self.mmu_log.push(MmuFault { va: addr, pa: Some(pa), allowed: ok, write });
                        if !ok {
                            self.bad.push(BadTouch { view: "recursive", pa, write });
                        }
                        self.mem.commit(pa);
                        let va = addr & !0xfff;
                        self.mem.map_at(va, pa);
                        self.rec_aliases.push(va);
                        return true;
                    }
                }
            }
        }
        false
    }

    /// Emulate one decoded privileged instruction.  Returns false if it is not handled here.
    unsafe fn emulate(&mut self, ctx: &mut Ctx, kind: Kind, len: usize) -> bool {
        let next = ctx.rip() + len as u64;
        match kind {
            Kind::MovFromCr { cr, gpr } => {
                if let Some(v) = self.cpu.read_cr(cr) {
                    ctx.set(gpr, v);
                }
            }
            Kind::MovToCr { cr, gpr } => {
                let v = ctx.get(gpr);
                self.cpu.write_cr(cr, v);
                if cr == 3 {
                    self.rec_drop_aliases();
                }
            }
            Kind::MovFromDr { dr, gpr } => {
                if let Some(v) = self.cpu.read_dr(dr) {
                    ctx.set(gpr, v);
                }
            }
            Kind::MovToDr { dr, gpr } => {
                let v = ctx.get(gpr);
                self.cpu.write_dr(dr, v);
            }
            Kind::Rdmsr => {
                let idx = ctx.get(1) as u32;
                let v = self.cpu.rdmsr(idx);
                // the CPU zero-extends EAX/EDX into RAX/RDX
                ctx.set(0, v & 0xffff_ffff);
                ctx.set(2, v >> 32);
            }
            Kind::Wrmsr => {
                let idx = ctx.get(1) as u32;
                let v = (ctx.get(0) & 0xffff_ffff) | (ctx.get(2) << 32);
                self.cpu.wrmsr(idx, v);
            }
            Kind::Xsetbv => {
                let ecx = ctx.get(1) as u32;
                let v = (ctx.get(0) & 0xffff_ffff) | (ctx.get(2) << 32);
                self.cpu.xsetbv(ecx, v);
            }
            Kind::Xgetbv => {
                let ecx = ctx.get(1) as u32;
                if let Some(v) = self.cpu.xgetbv(ecx) {
                    ctx.set(0, v & 0xffff_ffff);
                    ctx.set(2, v >> 32);
                }
            }
            Kind::Invlpg { addr } => {
                self.cpu.invlpg(addr);
                self.rec_drop_aliases();
            }
            Kind::Invpcid { kind_gpr, addr } => {
                let k = ctx.get(kind_gpr);
                let d = [(addr as *const u64).read_unaligned(), (addr as *const u64).add(1).read_unaligned()];
                self.cpu.invpcid(k, d);
            }
            Kind::Cli => self.cpu.cli(),
            Kind::Sti => self.cpu.sti(),
            Kind::In { width } => {
                let port = ctx.get(2) as u16;
                let v = self.cpu.port_in(width, port) as u64;
                // the bits of RAX above the access width are not written by the instruction; the
                // compiler treats them as clobbered, so the simulator fills them with garbage to
                // make a wrong-width read visible
                let junk = crate::prng::mix2(port as u64, v ^ 0x5a5a);
                let nv = match width {
                    1 => (junk & !0xff) | v,
                    2 => (junk & !0xffff) | v,
                    _ => v,
                };
                ctx.set(0, nv);
            }
            Kind::Out { width } => {
                let port = ctx.get(2) as u16;
                let a = ctx.get(0);
                let v = match width {
                    1 => a & 0xff,
                    2 => a & 0xffff,
                    _ => a & 0xffff_ffff,
                } as u32;
                self.cpu.port_out(width, port, v);
            }
            other => {
                if let Some(f) = self.ext {
                    return f(self, ctx, other, len);
                }
                return false;
            }
        }
        ctx.set_rip(next);
        true
    }
}

unsafe extern "C" fn on_signal(sig: libc::c_int, info: *mut libc::siginfo_t, uc: *mut libc::c_void) {
    let w = &mut *WORLD;
    let mut ctx = Ctx { uc: uc as *mut libc::ucontext_t };
    w.depth += 1;
    if w.depth > 1 {
        let mut b = [0u8; 18];
        raw_write(b"HARNESS-ERROR: fault inside the signal handler rip=");
        raw_write(hex(ctx.rip(), &mut b));
        raw_write(b"\n");
        libc::_exit(2);
    }
    let code = (*info).si_code;
    let addr = (*info).si_addr() as u64;
    let rip = ctx.rip();
    let mut handled = false;
    if sig == libc::SIGTRAP {
        if let Some(f) = w.on_sigtrap {
            handled = f(w, &mut ctx);
        }
    } else if sig == libc::SIGILL || (sig == libc::SIGSEGV && code == 0x80) {
        // privileged / unknown instruction: decode at RIP
        w.traps += 1;
        if w.traps > w.trap_budget {
            die_in_handler(w, "trap-budget-exceeded", rip, addr);
        }
        let bytes = core::slice::from_raw_parts(rip as *const u8, 15);
        if let Some(insn) = decode::decode(bytes, &ctx) {
            handled = w.emulate(&mut ctx, insn.kind, insn.len);
        }
    } else if sig == libc::SIGSEGV || sig == libc::SIGBUS {
        let write = ctx.err() & 2 != 0;
        handled = w.page_fault(addr, write);
    }
    if !handled {
        let what = match sig {
            libc::SIGILL => "SIGILL",
            libc::SIGTRAP => "SIGTRAP",
            libc::SIGBUS => "SIGBUS",
            _ => "SIGSEGV",
        };
        die_in_handler(w, what, rip, addr);
    }
    w.depth -= 1;
}

unsafe fn install_handlers() {
    // alternate stack so that delivery into simulated stacks cannot break the handler
    let sz = 1 << 18;
    let stk = libc::mmap(
        core::ptr::null_mut(),
        sz,
        libc::PROT_READ | libc::PROT_WRITE,
        libc::MAP_PRIVATE | libc::MAP_ANONYMOUS,
        -1,
        0,
    );
    let ss = libc::stack_t { ss_sp: stk, ss_flags: 0, ss_size: sz };
    libc::sigaltstack(&ss, core::ptr::null_mut());
    for sig in [libc::SIGSEGV, libc::SIGILL, libc::SIGBUS, libc::SIGTRAP] {
        let mut sa: libc::sigaction = core::mem::zeroed();
        sa.sa_sigaction = on_signal as usize;
        sa.sa_flags = libc::SA_SIGINFO | libc::SA_ONSTACK | libc::SA_NODEFER;
        libc::sigemptyset(&mut sa.sa_mask);
        libc::sigaction(sig, &sa, core::ptr::null_mut());
    }
}

/// Run `f` as a call into the system under test: trap budget, event trace and fault logs are
/// reset, panics are caught.
pub fn sut_call<T>(label: &str, f: impl FnOnce() -> T) -> Result<T, String> {
    let w = world();
    w.set_label(label);
    w.cpu.trace.clear();
    w.cpu.faults = 0;
    w.traps = 0;
    w.mmu_log.clear();
    w.bad.clear();
    w.in_sut = true;
    let r = std::panic::catch_unwind(std::panic::AssertUnwindSafe(f));
    let w = world();
    w.in_sut = false;
    r.map_err(|e| {
        if let Some(s) = e.downcast_ref::<&str>() {
            s.to_string()
        } else if let Some(s) = e.downcast_ref::<String>() {
            s.clone()
        } else {
            "panic".to_string()
        }
    })
}

pub fn trace_take() -> Vec<Ev> {
    core::mem::take(&mut world().cpu.trace)
}
