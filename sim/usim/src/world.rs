//! The process-global simulated world and the synchronous-signal seam (DESIGN.md §1.1):
//! privileged instructions trap (SIGSEGV si_code=SI_KERNEL / SIGILL) and are emulated against
//! `Cpu`; page faults on recursive page-table addresses are resolved by the software MMU; page
//! faults inside the offset window are accesses to physical memory the mapper must not touch.

use crate::cpu::{Cpu, Ev};
use crate::decode::{self, Kind, Regs};
use crate::hwwalk;
use crate::physmem::{self, PhysMem};
use std::collections::BTreeSet;

#[derive(Clone, Debug, PartialEq, Eq)]
pub struct MmuFault {
    pub va: u64,
    /// physical page the access resolved to (None: the walk ended not-present)
    pub pa: Option<u64>,
    pub allowed: bool,
    pub write: bool,
}

#[derive(Clone, Debug, PartialEq, Eq)]
pub struct BadTouch {
    pub view: &'static str,
    pub pa: u64,
    pub write: bool,
}

pub struct World {
    pub mem: PhysMem,
    pub cpu: Cpu,
    /// offset view: [base, base+len) is the physical-memory window
    pub offset_win: Option<(u64, u64)>,
    pub offset_exposed: BTreeSet<u64>,
    /// recursive view: P4 slot resolved by the software MMU
    pub rec_slot: Option<u16>,
    pub rec_aliases: Vec<u64>,
    /// frames the system under test may touch right now (tables of the hierarchy + frames
    /// handed out by the allocator during the current call)
    pub allowed: BTreeSet<u64>,
    pub mmu_log: Vec<MmuFault>,
    pub bad: Vec<BadTouch>,
    /// inside a call into the crate under test
    pub in_sut: bool,
    /// per-call cap on trapped instructions (termination guard)
    pub trap_budget: u64,
    pub traps: u64,
    pub depth: u32,
    /// label printed if the process has to die inside the handler
    pub ctx_label: [u8; 96],
    pub ctx_len: usize,
    /// monitor mode (EFLAGS.TF single-stepping): every instruction boundary is seen
    pub mon_active: bool,
    pub mon_steps: u64,
    pub mon_budget: u64,
    pub mon_overrun: bool,
    /// where a trapped iretq / retfq continues (the popped values are recorded, not followed)
    pub landing: Option<(u64, u64)>,
    /// intercept cpuid leaves 0x8000_0008 / 0x8000_000a
    pub cpuid_intercept: bool,
    /// rolling hash of every event trace of the current run (for the determinism proof)
    pub evhash: u64,
    /// pages of the kernel half of the address space (which a ring-3 process cannot back) whose
    /// accesses are redirected to a shadow page: (page address, shadow page address)
    pub redirects: Vec<(u64, u64)>,
    /// a redirected access is being single-stepped: (register, original value, moved value)
    pub redirect_pending: Option<(u8, u64, u64)>,
    /// accesses redirected so far / addresses touched (for the scenario's oracle)
    pub redirect_log: Vec<(u64, bool)>,
    scratch_page: u64,
}

static mut WORLD: *mut World = core::ptr::null_mut();

/// # Safety: single-threaded process; the handler runs synchronously on the same thread.
#[allow(clippy::mut_from_ref)]
pub fn world() -> &'static mut World {
    unsafe {
        if WORLD.is_null() {
            let w = Box::new(World {
                mem: PhysMem::new(),
                cpu: Cpu::default(),
                offset_win: None,
                offset_exposed: BTreeSet::new(),
                rec_slot: None,
                rec_aliases: Vec::new(),
                allowed: BTreeSet::new(),
                mmu_log: Vec::new(),
                bad: Vec::new(),
                in_sut: false,
                trap_budget: 1 << 20,
                traps: 0,
                depth: 0,
                ctx_label: [0; 96],
                ctx_len: 0,
                mon_active: false,
                mon_steps: 0,
                mon_budget: 400_000,
                mon_overrun: false,
                landing: None,
                cpuid_intercept: true,
                evhash: 0,
                redirects: Vec::new(),
                redirect_pending: None,
                redirect_log: Vec::new(),
                scratch_page: 0,
            });
            WORLD = Box::into_raw(w);
            install_handlers();
            // panics of the system under test are outcomes (caught by sut_call), not console noise
            if std::env::var_os("USIM_PANIC_TRACE").is_none() {
                std::panic::set_hook(Box::new(|_| {}));
            }
        }
        &mut *WORLD
    }
}

pub struct Ctx {
    pub uc: *mut libc::ucontext_t,
}

const GREG: [usize; 16] = [
    libc::REG_RAX as usize,
    libc::REG_RCX as usize,
    libc::REG_RDX as usize,
    libc::REG_RBX as usize,
    libc::REG_RSP as usize,
    libc::REG_RBP as usize,
    libc::REG_RSI as usize,
    libc::REG_RDI as usize,
    libc::REG_R8 as usize,
    libc::REG_R9 as usize,
    libc::REG_R10 as usize,
    libc::REG_R11 as usize,
    libc::REG_R12 as usize,
    libc::REG_R13 as usize,
    libc::REG_R14 as usize,
    libc::REG_R15 as usize,
];

impl Ctx {
    pub fn set(&mut self, r: u8, v: u64) {
        unsafe { (*self.uc).uc_mcontext.gregs[GREG[r as usize & 15]] = v as i64 }
    }
    pub fn set_rip(&mut self, v: u64) {
        unsafe { (*self.uc).uc_mcontext.gregs[libc::REG_RIP as usize] = v as i64 }
    }
    pub fn eflags(&self) -> u64 {
        unsafe { (*self.uc).uc_mcontext.gregs[libc::REG_EFL as usize] as u64 }
    }
    pub fn set_eflags(&mut self, v: u64) {
        unsafe { (*self.uc).uc_mcontext.gregs[libc::REG_EFL as usize] = v as i64 }
    }
    pub fn err(&self) -> u64 {
        unsafe { (*self.uc).uc_mcontext.gregs[libc::REG_ERR as usize] as u64 }
    }
    pub fn rsp(&self) -> u64 {
        self.get(4)
    }
}

impl Regs for Ctx {
    fn get(&self, r: u8) -> u64 {
        unsafe { (*self.uc).uc_mcontext.gregs[GREG[r as usize & 15]] as u64 }
    }
    fn rip(&self) -> u64 {
        unsafe { (*self.uc).uc_mcontext.gregs[libc::REG_RIP as usize] as u64 }
    }
}

fn raw_write(s: &[u8]) {
    unsafe {
        libc::write(2, s.as_ptr() as *const libc::c_void, s.len());
    }
}

fn hex(mut v: u64, out: &mut [u8; 18]) -> &[u8] {
    out[0] = b'0';
    out[1] = b'x';
    for i in (0..16).rev() {
        let d = (v & 0xf) as u8;
        out[2 + i] = if d < 10 { b'0' + d } else { b'a' + d - 10 };
        v >>= 4;
    }
    &out[..]
}

/// Exit code 3: a fault the simulator cannot attribute (wild access of the system under test or a
/// harness bug).  The driver decides which by replaying the seed in an isolated child.
pub fn die_in_handler(w: &World, what: &str, rip: u64, addr: u64) -> ! {
    let mut b = [0u8; 18];
    raw_write(b"FATAL-FAULT ");
    raw_write(what.as_bytes());
    raw_write(b" rip=");
    raw_write(hex(rip, &mut b));
    raw_write(b" addr=");
    raw_write(hex(addr, &mut b));
    raw_write(b" in_sut=");
    raw_write(if w.in_sut { b"1" } else { b"0" });
    raw_write(b" ctx=");
    raw_write(&w.ctx_label[..w.ctx_len]);
    raw_write(b"\n");
    unsafe { libc::_exit(if w.in_sut { 3 } else { 2 }) }
}

impl World {
    /// fold the current event trace into the run's event hash
    pub fn fold_trace(&mut self) {
        for e in &self.cpu.trace {
            // host addresses (table bases, native return addresses) differ between processes
            // under ASLR and are not part of the simulated behaviour: leave them out
            let s = match e {
                Ev::Lgdt { limit, .. } => format!("lgdt {limit}"),
                Ev::Lidt { limit, .. } => format!("lidt {limit}"),
                Ev::Iretq { cs, ss, .. } => format!("iretq {cs:x} {ss:x}"),
                Ev::Retfq { cs, .. } => format!("retfq {cs:x}"),
                // the arithmetic flags at a pushfq are whatever the last native instruction left,
                // which may have compared host addresses
                Ev::Pushfq { val } => format!("pushfq {:x}", val & !0x8d5),
                Ev::Popfq { val } => format!("popfq {:x}", val & !0x8d5),
                // refusal texts quote raw descriptors, which may hold host addresses
                Ev::Fault { vec, why } => format!("fault {vec} {}", why.split(':').next().unwrap_or("")),
                e => format!("{e:?}"),
            };
            let mut h = 0xcbf2_9ce4_8422_2325u64;
            for b in s.bytes() {
                h = (h ^ b as u64).wrapping_mul(0x100_0000_01b3);
            }
            self.evhash = (self.evhash ^ h).wrapping_mul(0x100_0000_01b3).rotate_left(23) ^ 0x9E37_79B9;
        }
    }

    pub fn set_label(&mut self, s: &str) {
        let n = s.len().min(96);
        self.ctx_label[..n].copy_from_slice(&s.as_bytes()[..n]);
        self.ctx_len = n;
    }

    // ---- offset view -------------------------------------------------------------------------
    pub fn offset_open(&mut self, base: u64, len: u64) -> bool {
        if !physmem::reserve_noreplace(base, len) {
            return false;
        }
        self.offset_win = Some((base, len));
        self.offset_exposed.clear();
        true
    }
    pub fn offset_close(&mut self) {
        if let Some((base, len)) = self.offset_win.take() {
            physmem::unmap(base, len);
        }
        self.offset_exposed.clear();
    }
    pub fn offset_expose(&mut self, pa: u64) {
        if let Some((base, len)) = self.offset_win {
            if pa < len && self.offset_exposed.insert(pa) {
                self.mem.commit(pa);
                self.mem.map_at(base + pa, pa);
            }
        }
    }
    pub fn offset_hide(&mut self, pa: u64) {
        if let Some((base, _)) = self.offset_win {
            if self.offset_exposed.remove(&pa) {
                physmem::protect_none(base + pa, 4096);
            }
        }
    }

    // ---- recursive view ----------------------------------------------------------------------
    pub fn rec_drop_aliases(&mut self) {
        for va in self.rec_aliases.drain(..) {
            physmem::unmap(va, 4096);
        }
    }

    unsafe fn page_fault(&mut self, addr: u64, write: bool) -> bool {
        if let Some((base, len)) = self.offset_win {
            if addr >= base && addr - base < len {
                let pa = (addr - base) & !0xfff;
                let ok = self.allowed.contains(&pa);
                if !ok {
                    self.bad.push(BadTouch { view: "offset", pa, write });
                }
                // make it accessible so that the call can finish and be reported
                self.offset_exposed.insert(pa);
                self.mem.commit(pa);
                self.mem.map_at(base + pa, pa);
                return true;
            }
        }
        if let Some(r) = self.rec_slot {
            if hwwalk::idx(addr, 4) == r as u64 && addr >> 47 == 0 {
                let w = hwwalk::walk(&self.mem, self.cpu.root(), addr);
                match w {
                    None => {
                        self.mmu_log.push(MmuFault { va: addr, pa: None, allowed: false, write });
                        // a genuine page fault of the system under test: give it a scratch page of
                        // zeros so that the call can finish and be reported
                        let va = addr & !0xfff;
                        let r = libc::mmap(
                            va as *mut libc::c_void,
                            4096,
                            libc::PROT_READ | libc::PROT_WRITE,
                            libc::MAP_PRIVATE | libc::MAP_ANONYMOUS | libc::MAP_FIXED,
                            -1,
                            0,
                        );
                        if r == libc::MAP_FAILED {
                            return false;
                        }
                        self.rec_aliases.push(va);
                        return true;
                    }
                    Some(wk) => {
                        let pa = wk.pa & !0xfff;
                        let ok = self.allowed.contains(&pa);
                        self.mmu_log.push(MmuFault { va: addr, pa: Some(pa), allowed: ok, write });
                        if !ok {
                            self.bad.push(BadTouch { view: "recursive", pa, write });
                        }
                        self.mem.commit(pa);
                        let va = addr & !0xfff;
                        self.mem.map_at(va, pa);
                        self.rec_aliases.push(va);
                        return true;
                    }
                }
            }
        }
        false
    }

    unsafe fn rec_upper_fault(&mut self, ctx: &mut Ctx, addr: u64, write: bool) -> bool {
        match hwwalk::walk(&self.mem, self.cpu.root(), addr) {
            None => {
                self.mmu_log.push(MmuFault { va: addr, pa: None, allowed: false, write });
                // a genuine page fault of the system under test: a scratch page of zeros lets the
                // call finish and be reported
                if self.scratch_page == 0 {
                    let r = libc::mmap(core::ptr::null_mut(), 4096, libc::PROT_READ | libc::PROT_WRITE, libc::MAP_PRIVATE | libc::MAP_ANONYMOUS, -1, 0);
                    if r == libc::MAP_FAILED {
                        return false;
                    }
                    self.scratch_page = r as u64;
                }
                core::ptr::write_bytes(self.scratch_page as *mut u8, 0, 4096);
                let sp = self.scratch_page;
                self.redirect(ctx, addr, sp, write)
            }
            Some(wk) => {
                let pa = wk.pa & !0xfff;
                let ok = self.allowed.contains(&pa);
                self.mmu_log.push(MmuFault { va: addr, pa: Some(pa), allowed: ok, write });
                if !ok {
                    self.bad.push(BadTouch { view: "recursive", pa, write });
                }
                let host = self.mem.commit(pa) as u64;
                self.redirect(ctx, addr, host, write)
            }
        }
    }

    /// An access to a redirected page: move the address register by the distance to the shadow
    /// page and single-step the instruction.  false = the instruction is not understood.
    unsafe fn redirect(&mut self, ctx: &mut Ctx, addr: u64, shadow: u64, write: bool) -> bool {
        if self.redirect_pending.is_some() {
            return false;
        }
        let bytes = core::slice::from_raw_parts(ctx.rip() as *const u8, 15);
        // rep stos (what memset of a whole table becomes): executed here, on the shadow page
        let (rep, rest) = if bytes[0] == 0xf3 { (true, &bytes[1..]) } else { (false, bytes) };
        let (wide, opc) = if rest[0] == 0x48 { (true, rest[1]) } else { (false, rest[0]) };
        if rep && (opc == 0xaa || opc == 0xab) && ctx.eflags() & 0x400 == 0 && ctx.get(7) == addr {
            let size: u64 = if opc == 0xaa { 1 } else if wide { 8 } else { 4 };
            let left_in_page = (0x1000 - (addr & 0xfff)) / size;
            let n = ctx.get(1).min(left_in_page);
            let val = ctx.get(0).to_le_bytes();
            let dst = (shadow + (addr & 0xfff)) as *mut u8;
            for k in 0..(n * size) as usize {
                dst.add(k).write_volatile(val[k % size as usize]);
            }
            self.redirect_log.push((addr, true));
            ctx.set(7, ctx.get(7).wrapping_add(n * size));
            ctx.set(1, ctx.get(1) - n);
            if ctx.get(1) == 0 {
                ctx.set_rip(ctx.rip() + if wide { 3 } else { 2 });
            }
            return true;
        }
        let Some(m) = crate::memop::mem_operand(bytes, ctx, addr) else {
            let mut b = [0u8; 18];
            raw_write(b"REDIRECT: cannot decode");
            for k in 0..12 {
                raw_write(b" ");
                raw_write(&hex(bytes[k] as u64, &mut b)[16..]);
            }
            raw_write(b"\n");
            return false;
        };
        // the decoded operand must be the access that faulted (the access may start up to 63 bytes
        // before the faulting byte when it straddles into the page)
        if addr.wrapping_sub(m.ea) >= 64 {
            return false;
        }
        let delta = shadow.wrapping_sub(addr & !0xfff);
        let (reg, moved) = match (m.base, m.index) {
            (Some(b), _) if b != 4 => (b, ctx.get(b).wrapping_add(delta)),
            (None, Some(x)) if delta % m.scale as u64 == 0 => (x, ctx.get(x).wrapping_add(delta / m.scale as u64)),
            _ => return false,
        };
        // base and index the same register, or the register also an operand that is not simply
        // overwritten: moving it would change more than the address
        if m.base.is_some() && m.index == m.base {
            return false;
        }
        if m.reg_gpr == Some(reg) && !m.pure_load {
            return false;
        }
        self.redirect_log.push((addr, write));
        self.redirect_pending = Some((reg, ctx.get(reg), moved));
        ctx.set(reg, moved);
        ctx.set_eflags(ctx.eflags() | 0x100);
        true
    }

    /// Emulate one decoded privileged instruction.  Returns false if it is not handled here.
    unsafe fn emulate(&mut self, ctx: &mut Ctx, kind: Kind, len: usize) -> bool {
        let next = ctx.rip() + len as u64;
        self.cpu.tick();
        match kind {
            Kind::MovFromCr { cr, gpr } => {
                if let Some(v) = self.cpu.read_cr(cr) {
                    ctx.set(gpr, v);
                }
            }
            Kind::MovToCr { cr, gpr } => {
                let v = ctx.get(gpr);
                self.cpu.write_cr(cr, v);
                if cr == 3 {
                    self.rec_drop_aliases();
                }
            }
            Kind::MovFromDr { dr, gpr } => {
                if let Some(v) = self.cpu.read_dr(dr) {
                    ctx.set(gpr, v);
                }
            }
            Kind::MovToDr { dr, gpr } => {
                let v = ctx.get(gpr);
                self.cpu.write_dr(dr, v);
            }
            Kind::Rdmsr => {
                let idx = ctx.get(1) as u32;
                let v = self.cpu.rdmsr(idx);
                // the CPU zero-extends EAX/EDX into RAX/RDX
                ctx.set(0, v & 0xffff_ffff);
                ctx.set(2, v >> 32);
            }
            Kind::Wrmsr => {
                let idx = ctx.get(1) as u32;
                let v = (ctx.get(0) & 0xffff_ffff) | (ctx.get(2) << 32);
                self.cpu.wrmsr(idx, v);
            }
            Kind::Xsetbv => {
                let ecx = ctx.get(1) as u32;
                let v = (ctx.get(0) & 0xffff_ffff) | (ctx.get(2) << 32);
                self.cpu.xsetbv(ecx, v);
            }
            Kind::Xgetbv => {
                let ecx = ctx.get(1) as u32;
                if let Some(v) = self.cpu.xgetbv(ecx) {
                    ctx.set(0, v & 0xffff_ffff);
                    ctx.set(2, v >> 32);
                }
            }
            Kind::Invlpg { addr } => {
                self.cpu.invlpg(addr);
                self.rec_drop_aliases();
            }
            Kind::Invpcid { kind_gpr, addr } => {
                let k = ctx.get(kind_gpr);
                let d = [(addr as *const u64).read_unaligned(), (addr as *const u64).add(1).read_unaligned()];
                self.cpu.invpcid(k, d);
            }
            Kind::Cli => self.cpu.cli(),
            Kind::Sti => self.cpu.sti(next),
            Kind::In { width } => {
                let port = ctx.get(2) as u16;
                let v = self.cpu.port_in(width, port) as u64;
                // the bits of RAX above the access width are not written by the instruction; the
                // compiler treats them as clobbered, so the simulator fills them with garbage to
                // make a wrong-width read visible
                let junk = crate::prng::mix2(port as u64, v ^ 0x5a5a);
                let nv = match width {
                    1 => (junk & !0xff) | v,
                    2 => (junk & !0xffff) | v,
                    _ => v,
                };
                ctx.set(0, nv);
            }
            Kind::Out { width } => {
                let port = ctx.get(2) as u16;
                let a = ctx.get(0);
                let v = match width {
                    1 => a & 0xff,
                    2 => a & 0xffff,
                    _ => a & 0xffff_ffff,
                } as u32;
                self.cpu.port_out(width, port, v);
            }
            Kind::Hlt => self.cpu.hlt(),
            Kind::Swapgs => self.cpu.swapgs(),
            Kind::Invlpgb => {
                let (rax, ecx, edx) = (ctx.get(0), ctx.get(1) as u32, ctx.get(2) as u32);
                self.cpu.trace.push(Ev::Invlpgb { rax, ecx, edx });
                if !self.cpu.cpuid.invlpgb {
                    self.cpu.faults += 1;
                    self.cpu.trace.push(Ev::Fault { vec: 6, why: "invlpgb not supported by this processor".into() });
                } else if rax & 1 != 0 && (ecx & 0xffff) > self.cpu.cpuid.invlpgb_max as u32 {
                    self.cpu.faults += 1;
                    self.cpu.trace.push(Ev::Fault { vec: 13, why: format!("invlpgb count {} exceeds the processor maximum {}", ecx & 0xffff, self.cpu.cpuid.invlpgb_max) });
                }
            }
            Kind::Tlbsync => self.cpu.trace.push(Ev::Tlbsync),
            Kind::Lgdt { addr } | Kind::Lidt { addr } => {
                // the operand may lie anywhere (an address-size prefix truncates the address): the
                // CPU would raise #PF on an unmapped operand
                if !readable(addr, 10) {
                    self.cpu.fault(14, format!("descriptor-table pointer operand at {addr:#x} is not mapped"));
                    ctx.set_rip(ctx.rip() + len as u64);
                    return true;
                }
                let limit = (addr as *const u16).read_unaligned();
                let base = ((addr + 2) as *const u64).read_unaligned();
                if matches!(kind, Kind::Lgdt { .. }) {
                    self.cpu.gdtr = crate::cpu::DtReg { base, limit };
                    self.cpu.trace.push(Ev::Lgdt { base, limit, operand: addr });
                } else {
                    self.cpu.idtr = crate::cpu::DtReg { base, limit };
                    self.cpu.trace.push(Ev::Lidt { base, limit, operand: addr });
                }
            }
            Kind::LtrMem { addr } => {
                if !readable(addr, 2) {
                    self.cpu.fault(14, format!("ltr operand at {addr:#x} is not mapped"));
                } else {
                    let sel = (addr as *const u16).read_unaligned();
                    self.cpu.ltr(sel);
                }
            }
            Kind::Ltr { gpr } => {
                let sel = ctx.get(gpr) as u16;
                self.cpu.ltr(sel);
            }
            Kind::MovToSreg { sreg, gpr } => {
                let sel = ctx.get(gpr) as u16;
                self.cpu.load_data_seg(sreg, sel);
            }
            Kind::MovSregToMem { sreg, addr } => {
                if !readable(addr, 2) {
                    return false; // let it fault natively
                }
                let v = self.cpu.sel[sreg as usize];
                self.cpu.trace.push(Ev::ReadSreg { sreg, val: v });
                (addr as *mut u16).write_unaligned(v);
            }
            Kind::MovMemToSreg { sreg, addr } => {
                if !readable(addr, 2) {
                    return false;
                }
                let sel = (addr as *const u16).read_unaligned();
                self.cpu.load_data_seg(sreg, sel);
            }
            Kind::PushSreg { sreg, opsize } => {
                let v = self.cpu.sel[sreg as usize];
                self.cpu.trace.push(Ev::ReadSreg { sreg, val: v });
                let sp = ctx.rsp() - opsize as u64;
                if opsize == 2 {
                    (sp as *mut u16).write_unaligned(v);
                } else {
                    (sp as *mut u64).write_unaligned(v as u64);
                }
                ctx.set(4, sp);
            }
            Kind::PopSreg { sreg, opsize } => {
                let sp = ctx.rsp();
                let sel = (sp as *const u16).read_unaligned();
                ctx.set(4, sp + opsize as u64);
                self.cpu.load_data_seg(sreg, sel);
            }
            Kind::MovFromSreg { sreg, gpr, opsize } => {
                let v = self.cpu.sel[sreg as usize];
                self.cpu.trace.push(Ev::ReadSreg { sreg, val: v });
                let old = ctx.get(gpr);
                ctx.set(gpr, if opsize == 2 { (old & !0xffff) | v as u64 } else { v as u64 });
            }
            Kind::FsGsBase { which, gpr, wide } => {
                let gs = which & 1 != 0;
                if which < 2 {
                    let v = if gs { self.cpu.gs_base } else { self.cpu.fs_base };
                    self.cpu.trace.push(Ev::RdBase { gs, val: v });
                    ctx.set(gpr, if wide { v } else { v & 0xffff_ffff });
                } else {
                    let v = if wide { ctx.get(gpr) } else { ctx.get(gpr) & 0xffff_ffff };
                    self.cpu.trace.push(Ev::WrBase { gs, val: v });
                    if !crate::hwwalk::is_canonical(v) {
                        self.cpu.faults += 1;
                        self.cpu.trace.push(Ev::Fault { vec: 13, why: format!("wr{}base with non-canonical {v:#x}", if gs { "gs" } else { "fs" }) });
                    } else if gs {
                        self.cpu.gs_base = v;
                    } else {
                        self.cpu.fs_base = v;
                    }
                }
            }
            Kind::Pushfq => {
                let v = self.cpu.rflags_value(ctx.eflags());
                self.cpu.trace.push(Ev::Pushfq { val: v });
                let sp = ctx.rsp() - 8;
                (sp as *mut u64).write_unaligned(v);
                ctx.set(4, sp);
            }
            Kind::Popfq => {
                let sp = ctx.rsp();
                let v = (sp as *const u64).read_unaligned();
                ctx.set(4, sp + 8);
                self.cpu.trace.push(Ev::Popfq { val: v });
                const ARITH: u64 = 0x8d5 | 0x400;
                let was = self.cpu.iflag;
                self.cpu.iflag = v & 0x200 != 0;
                if !was && self.cpu.iflag {
                    // popfq has no interrupt shadow
                    self.cpu.shadow_rip = None;
                }
                // POPFQ (SDM vol. 2): VIP and VIF are unaffected, RF is cleared, VM unaffected (0)
                const KEPT: u64 = 0x18_0000;
                self.cpu.rflags_sys = (v & !ARITH & !0x200 & !2 & !KEPT & !0x3_0000) | (self.cpu.rflags_sys & KEPT);
                let keep = ctx.eflags() & !ARITH;
                ctx.set_eflags(keep | (v & ARITH));
            }
            Kind::Cpuid => {
                let (leaf, sub) = (ctx.get(0) as u32, ctx.get(1) as u32);
                self.cpu.trace.push(Ev::Cpuid { leaf, sub });
                let r = core::arch::x86_64::__cpuid_count(leaf, sub);
                let (mut a, mut b, mut c, mut d) = (r.eax, r.ebx, r.ecx, r.edx);
                if self.cpuid_intercept && leaf == 0x8000_0008 {
                    let p = &self.cpu.cpuid;
                    b = (b & !((1 << 3) | (1 << 21))) | ((p.invlpgb as u32) << 3) | ((p.nested as u32) << 21);
                    d = (d & !0xffff) | p.invlpgb_max as u32;
                    let _ = (&mut a, &mut c);
                }
                if self.cpuid_intercept && leaf == 0x8000_000a {
                    b = self.cpu.cpuid.nasid;
                }
                ctx.set(0, a as u64);
                ctx.set(3, b as u64);
                ctx.set(1, c as u64);
                ctx.set(2, d as u64);
            }
            Kind::Retfq => {
                let sp = ctx.rsp();
                let rip = (sp as *const u64).read_unaligned();
                let cs = ((sp + 8) as *const u64).read_unaligned();
                self.cpu.trace.push(Ev::Retfq { rip, cs });
                if self.cpu.load_cs(cs as u16) {
                    ctx.set(4, sp + 16);
                    ctx.set_rip(rip);
                    return true;
                }
                // refused: continue after the instruction with the frame popped (so that the call returns)
                ctx.set(4, sp + 16);
                ctx.set_rip(rip);
                return true;
            }
            Kind::Iretq => {
                let sp = ctx.rsp();
                let rd = |k: u64| ((sp + 8 * k) as *const u64).read_unaligned();
                let (rip, cs, rflags, rsp, ss) = (rd(0), rd(1), rd(2), rd(3), rd(4));
                self.cpu.trace.push(Ev::Iretq { rip, cs, rflags, rsp, ss });
                match self.landing.take() {
                    Some((lrip, lrsp)) => {
                        ctx.set_rip(lrip);
                        ctx.set(4, lrsp);
                    }
                    None => return false,
                }
                return true;
            }
            Kind::Sgdt { addr } | Kind::Sidt { addr } => {
                // the simulated GDTR / IDTR, not the host's (ring 3 may execute these natively unless
                // UMIP is on): a read-back after lgdt / lidt sees what was loaded
                if !readable(addr, 10) {
                    return false;
                }
                let r = if matches!(kind, Kind::Sgdt { .. }) { &self.cpu.gdtr } else { &self.cpu.idtr };
                (addr as *mut u16).write_unaligned(r.limit);
                ((addr + 2) as *mut u64).write_unaligned(r.base);
            }
            Kind::Int3 => return false,
        }
        ctx.set_rip(next);
        true
    }
}

/// Are `len` bytes at `addr` mapped?  (msync on the containing pages fails with ENOMEM otherwise.)
pub fn readable(addr: u64, len: u64) -> bool {
    let start = addr & !0xfff;
    let end = (addr.wrapping_add(len).wrapping_add(0xfff)) & !0xfff;
    if end <= start {
        return false;
    }
    unsafe { libc::msync(start as *mut libc::c_void, (end - start) as usize, libc::MS_ASYNC) == 0 }
}

#[inline(never)]
#[no_mangle]
pub extern "C" fn usim_mon_exit_point() {
    // leaving monitor mode: the handler recognises this address at an instruction boundary
    unsafe { core::arch::asm!("nop", options(nomem, nostack, preserves_flags)) }
}

impl World {
    /// One #DB in monitor mode: RIP is at an instruction boundary.
    unsafe fn mon_step(&mut self, ctx: &mut Ctx) {
        self.mon_steps += 1;
        if self.mon_steps > self.mon_budget {
            self.mon_overrun = true;
            self.mon_active = false;
            ctx.set_eflags(ctx.eflags() & !0x100);
            return;
        }
        self.mon_peek(ctx);
    }

    /// Look at the instruction about to execute; emulate it if it is one of ours, repeatedly.
    unsafe fn mon_peek(&mut self, ctx: &mut Ctx) {
        loop {
            let rip = ctx.rip();
            if rip == usim_mon_exit_point as *const () as usize as u64 {
                self.mon_active = false;
                ctx.set_eflags(ctx.eflags() & !0x100);
                return;
            }
            self.cpu.at_boundary(rip);
            let bytes = core::slice::from_raw_parts(rip as *const u8, 15);
            match decode::decode(bytes, ctx) {
                Some(insn) if !matches!(insn.kind, Kind::Int3) => {
                    if !self.emulate(ctx, insn.kind, insn.len) {
                        return;
                    }
                }
                _ => return,
            }
        }
    }
}

/// Run `f` in monitor mode: EFLAGS.TF is set, every instruction boundary inside `f` is seen by the
/// simulator, and instructions that would execute natively with the wrong (ring 3) semantics
/// (pushfq, popfq, mov sreg, rd/wr fs/gs base, cpuid, xgetbv) are emulated instead.
pub fn monitor<T>(f: impl FnOnce() -> T) -> T {
    let w = world();
    w.mon_active = true;
    w.mon_steps = 0;
    w.mon_overrun = false;
    unsafe {
        core::arch::asm!("pushfq", "or qword ptr [rsp], 0x100", "popfq", "nop");
    }
    // a panic of the system under test unwinds past the exit point: leave single-step mode then
    struct Leave;
    impl Drop for Leave {
        fn drop(&mut self) {
            if std::thread::panicking() {
                // (the handler clears TF when it sees the exit point; pushfq/popfq here would be
                // emulated against the simulated flags)
                usim_mon_exit_point();
                world().mon_active = false;
            }
        }
    }
    let _leave = Leave;
    let r = f();
    usim_mon_exit_point();
    // belt and braces: if the exit point was not seen (budget overrun), TF is already clear
    world().mon_active = false;
    r
}

unsafe extern "C" fn on_signal(sig: libc::c_int, info: *mut libc::siginfo_t, uc: *mut libc::c_void) {
    let w = &mut *WORLD;
    let mut ctx = Ctx { uc: uc as *mut libc::ucontext_t };
    w.depth += 1;
    if w.depth > 1 {
        let mut b = [0u8; 18];
        raw_write(b"HARNESS-ERROR: fault inside the signal handler rip=");
        raw_write(hex(ctx.rip(), &mut b));
        raw_write(b"\n");
        libc::_exit(2);
    }
    let code = (*info).si_code;
    let addr = (*info).si_addr() as u64;
    let rip = ctx.rip();
    let mut handled = false;
    if sig == libc::SIGTRAP {
        if let Some((reg, orig, moved)) = w.redirect_pending.take() {
            // the redirected access has executed: move the address register back unless the
            // instruction overwrote it
            if ctx.get(reg) == moved {
                ctx.set(reg, orig);
            }
            if !w.mon_active {
                ctx.set_eflags(ctx.eflags() & !0x100);
            }
            handled = true;
        }
        if w.mon_active {
            w.mon_step(&mut ctx);
            handled = true;
        }
    } else if sig == libc::SIGILL || (sig == libc::SIGSEGV && code == 0x80) {
        // privileged / unknown instruction: decode at RIP
        w.traps += 1;
        if w.traps > w.trap_budget {
            die_in_handler(w, "trap-budget-exceeded", rip, addr);
        }
        let bytes = core::slice::from_raw_parts(rip as *const u8, 15);
        if let Some(insn) = decode::decode(bytes, &ctx) {
            // outside monitor mode a trapped instruction is the only instruction boundary the
            // simulator sees: pending interrupts are taken here
            w.cpu.at_boundary(rip);
            handled = w.emulate(&mut ctx, insn.kind, insn.len);
            if handled && w.mon_active {
                w.mon_peek(&mut ctx);
            }
        }
    } else if sig == libc::SIGSEGV || sig == libc::SIGBUS {
        let write = ctx.err() & 2 != 0;
        if let Some(&(_, shadow)) = w.redirects.iter().find(|(p, _)| *p == addr & !0xfff) {
            match w.redirect(&mut ctx, addr, shadow, write) {
                true => handled = true,
                false => {
                    // not a violation and not a harness bug: the step cannot be simulated
                    raw_write(b"REDIRECT-UNSUPPORTED instruction\n");
                    libc::_exit(4);
                }
            }
        } else if w.rec_slot.map_or(false, |r| r >= 256 && hwwalk::idx(addr, 4) == r as u64 && addr >> 47 == 0x1ffff) {
            // recursive view with a kernel-half recursive index: the software MMU resolves the
            // address as in the lower half, but the access itself is steered to the harness's
            // mapping of the frame (no alias can be mapped up there)
            match w.rec_upper_fault(&mut ctx, addr, write) {
                true => handled = true,
                false => {
                    raw_write(b"REDIRECT-UNSUPPORTED instruction\n");
                    libc::_exit(4);
                }
            }
        } else {
            handled = w.page_fault(addr, write);
        }
    }
    if !handled {
        let what = match sig {
            libc::SIGILL => "SIGILL",
            libc::SIGTRAP => "SIGTRAP",
            libc::SIGBUS => "SIGBUS",
            _ => "SIGSEGV",
        };
        die_in_handler(w, what, rip, addr);
    }
    w.depth -= 1;
}

unsafe fn install_handlers() {
    // alternate stack so that delivery into simulated stacks cannot break the handler
    let sz = 1 << 18;
    let stk = libc::mmap(
        core::ptr::null_mut(),
        sz,
        libc::PROT_READ | libc::PROT_WRITE,
        libc::MAP_PRIVATE | libc::MAP_ANONYMOUS,
        -1,
        0,
    );
    let ss = libc::stack_t { ss_sp: stk, ss_flags: 0, ss_size: sz };
    libc::sigaltstack(&ss, core::ptr::null_mut());
    for sig in [libc::SIGSEGV, libc::SIGILL, libc::SIGBUS, libc::SIGTRAP] {
        let mut sa: libc::sigaction = core::mem::zeroed();
        sa.sa_sigaction = on_signal as *const () as usize;
        sa.sa_flags = libc::SA_SIGINFO | libc::SA_ONSTACK | libc::SA_NODEFER;
        libc::sigemptyset(&mut sa.sa_mask);
        libc::sigaction(sig, &sa, core::ptr::null_mut());
    }
}

/// Run `f` as a call into the system under test: trap budget, event trace and fault logs are
/// reset, panics are caught.
pub fn sut_call<T>(label: &str, f: impl FnOnce() -> T) -> Result<T, String> {
    let w = world();
    w.set_label(label);
    w.fold_trace();
    w.cpu.trace.clear();
    w.cpu.faults = 0;
    w.traps = 0;
    w.mmu_log.clear();
    w.bad.clear();
    w.in_sut = true;
    let r = std::panic::catch_unwind(std::panic::AssertUnwindSafe(f));
    let w = world();
    w.in_sut = false;
    r.map_err(|e| {
        if let Some(s) = e.downcast_ref::<&str>() {
            s.to_string()
        } else if let Some(s) = e.downcast_ref::<String>() {
            s.clone()
        } else {
            "panic".to_string()
        }
    })
}

pub fn trace_take() -> Vec<Ev> {
    core::mem::take(&mut world().cpu.trace)
}
