//! Simulated physical memory: one sparse memfd of 2^52 bytes ("the DIMMs").
//!
//! A frame is *committed* when the simulation hands it out or the system under test touches it;
//! on commit it is filled with seeded garbage that looks like live page-table entries.  The
//! harness reads and writes committed frames through its own arena mapping; the system under test
//! sees them through one of three views (offset window, frame-to-pointer mapping, recursive
//! addresses resolved by the software MMU).

use crate::prng::mix2;
use std::collections::BTreeMap;

pub const PAGE: u64 = 4096;
pub const PHYS_BITS: u32 = 52;
pub const PHYS_SIZE: u64 = 1 << PHYS_BITS;
pub const ADDR_MASK: u64 = 0x000f_ffff_ffff_f000;
const ARENA_SLOTS: usize = 8192;

#[derive(Clone, Copy, Debug, PartialEq, Eq, PartialOrd, Ord)]
pub enum CommitReason {
    Root,
    Allocated,
    /// the system under test touched a frame the harness never handed out
    Touched,
}

pub struct PhysMem {
    fd: i32,
    arena: *mut u8,
    slots: BTreeMap<u64, usize>, // frame number -> arena slot
    next_slot: usize,
    pub garbage_seed: u64,
    /// Some(zone seed): frames outside the table zones (data memory) read as zero instead of garbage
    pub zero_data: Option<u64>,
    /// stale memory without a single word that looks PRESENT (bit 0 clear everywhere, never zero):
    /// arrays of aligned pointers, 0xaa fills ...
    pub even_garbage: bool,
    /// stale memory in which about a quarter of the words are zero (a former sparse table, a
    /// partly cleared buffer): zero words in front of live-looking ones
    pub sparse_garbage: bool,
}

unsafe impl Send for PhysMem {}

fn die(msg: &str) -> ! {
    eprintln!("HARNESS-ERROR: {msg}: {}", std::io::Error::last_os_error());
    std::process::exit(2);
}

/// The seeded garbage word at (frame, idx): never zero, mostly looks like a present entry.
pub fn garbage_word(seed: u64, frame_no: u64, idx: usize) -> u64 {
    let g = mix2(seed ^ frame_no.wrapping_mul(0x9E37_79B9_7F4A_7C15), idx as u64);
    let w = match g & 7 {
        0 => g,
        1..=4 => ((g >> 9) & ADDR_MASK & 0x0000_00ff_ffff_f000) | (g >> 52 & 0xffe) | 1,
        5 => ((g >> 9) & ADDR_MASK) | ((g >> 3) & 0x7e) | 1 | (g & (1 << 63)),
        6 => ((g >> 9) & ADDR_MASK & 0x0000_0000_3fff_f000) | 0x83 | (g >> 50 & 0x100),
        _ => ((g >> 9) & ADDR_MASK & 0x0000_ffff_ffe0_0000) | 0x87,
    };
    if w == 0 {
        0xdead_beef_0000_0001
    } else {
        w
    }
}

/// Which 1 GiB zones of physical memory hold page tables (seeded predicate shared by the
/// allocator, the step generator and the memory fill).
pub fn is_table_zone(zone_seed: u64, pa: u64) -> bool {
    mix2(zone_seed, pa >> 30) & 3 == 0
}

impl PhysMem {
    /// what untouched physical memory holds at (frame number, word index)
    pub fn fill_word(&self, frame_no: u64, idx: usize) -> u64 {
        if let Some(z) = self.zero_data {
            if !is_table_zone(z, frame_no << 12) {
                return 0;
            }
        }
        if self.sparse_hole(self.garbage_seed, frame_no, idx) {
            return 0;
        }
        let g = garbage_word(self.garbage_seed, frame_no, idx);
        if self.even_garbage {
            let e = g & !1;
            return if e == 0 { 0xaaaa_aaaa_aaaa_aaa0 } else { e };
        }
        g
    }

    fn sparse_hole(&self, seed: u64, frame_no: u64, idx: usize) -> bool {
        self.sparse_garbage && mix2(seed ^ 0x5a5a_0f0f_3c3c_9999, frame_no.wrapping_mul(512).wrapping_add(idx as u64)) & 3 == 0
    }

    pub fn new() -> PhysMem {
        unsafe {
            let fd = libc::memfd_create(b"dimms\0".as_ptr() as *const libc::c_char, 0);
            if fd < 0 {
                die("memfd_create");
            }
            if libc::ftruncate(fd, PHYS_SIZE as libc::off_t) != 0 {
                die("ftruncate 2^52");
            }
            let arena = libc::mmap(
                core::ptr::null_mut(),
                ARENA_SLOTS * PAGE as usize,
                libc::PROT_NONE,
                libc::MAP_PRIVATE | libc::MAP_ANONYMOUS | libc::MAP_NORESERVE,
                -1,
                0,
            );
            if arena == libc::MAP_FAILED {
                die("arena mmap");
            }
            PhysMem { fd, arena: arena as *mut u8, slots: BTreeMap::new(), next_slot: 0, garbage_seed: 0, zero_data: None, even_garbage: false, sparse_garbage: false }
        }
    }

    pub fn fd(&self) -> i32 {
        self.fd
    }

    /// Forget everything (end of a run).  Frees the memfd's pages.
    pub fn reset(&mut self, garbage_seed: u64) {
        unsafe {
            if self.next_slot > 0 {
                let r = libc::mmap(
                    self.arena as *mut libc::c_void,
                    self.next_slot * PAGE as usize,
                    libc::PROT_NONE,
                    libc::MAP_PRIVATE | libc::MAP_ANONYMOUS | libc::MAP_NORESERVE | libc::MAP_FIXED,
                    -1,
                    0,
                );
                if r == libc::MAP_FAILED {
                    die("arena reset");
                }
                if libc::ftruncate(self.fd, 0) != 0 || libc::ftruncate(self.fd, PHYS_SIZE as libc::off_t) != 0 {
                    die("memfd reset");
                }
            }
        }
        self.slots.clear();
        self.next_slot = 0;
        self.garbage_seed = garbage_seed;
    }

    pub fn is_committed(&self, pa: u64) -> bool {
        self.slots.contains_key(&(pa >> 12))
    }

    pub fn committed_frames(&self) -> impl Iterator<Item = u64> + '_ {
        self.slots.keys().map(|f| f << 12)
    }

    pub fn committed_count(&self) -> usize {
        self.slots.len()
    }

    /// Commit the frame containing `pa` (idempotent) and return the harness pointer to it.
    pub fn commit(&mut self, pa: u64) -> *mut u8 {
        let fno = (pa & (PHYS_SIZE - 1)) >> 12;
        if let Some(&s) = self.slots.get(&fno) {
            return unsafe { self.arena.add(s * PAGE as usize) };
        }
        if self.next_slot >= ARENA_SLOTS {
            eprintln!("HARNESS-ERROR: arena exhausted");
            std::process::exit(2);
        }
        let s = self.next_slot;
        self.next_slot += 1;
        unsafe {
            let at = self.arena.add(s * PAGE as usize);
            let r = libc::mmap(
                at as *mut libc::c_void,
                PAGE as usize,
                libc::PROT_READ | libc::PROT_WRITE,
                libc::MAP_SHARED | libc::MAP_FIXED,
                self.fd,
                (fno << 12) as libc::off_t,
            );
            if r == libc::MAP_FAILED {
                die("commit mmap");
            }
            let words = at as *mut u64;
            for i in 0..512 {
                words.add(i).write_volatile(self.fill_word(fno, i));
            }
            self.slots.insert(fno, s);
            at
        }
    }

    pub fn ptr(&self, pa: u64) -> Option<*mut u8> {
        self.slots.get(&(pa >> 12)).map(|&s| unsafe { self.arena.add(s * PAGE as usize) })
    }

    /// Read the u64 at physical address `pa` (8-aligned).  Uncommitted memory reads as its garbage.
    pub fn read_u64(&self, pa: u64) -> u64 {
        let pa = pa & (PHYS_SIZE - 1);
        match self.ptr(pa & !0xfff) {
            Some(p) => unsafe { (p.add((pa & 0xff8) as usize) as *const u64).read_volatile() },
            None => self.fill_word(pa >> 12, ((pa & 0xfff) >> 3) as usize),
        }
    }

    pub fn write_u64(&mut self, pa: u64, v: u64) {
        let p = self.commit(pa & !0xfff);
        unsafe { (p.add((pa & 0xff8) as usize) as *mut u64).write_volatile(v) }
    }

    pub fn read_frame(&self, pa: u64) -> [u64; 512] {
        let mut out = [0u64; 512];
        match self.ptr(pa & !0xfff) {
            Some(p) => unsafe {
                for (i, o) in out.iter_mut().enumerate() {
                    *o = (p as *const u64).add(i).read_volatile();
                }
            },
            None => {
                for (i, o) in out.iter_mut().enumerate() {
                    *o = self.fill_word((pa & (PHYS_SIZE - 1)) >> 12, i);
                }
            }
        }
        out
    }

    pub fn write_frame(&mut self, pa: u64, words: &[u64; 512]) {
        let p = self.commit(pa & !0xfff) as *mut u64;
        unsafe {
            for (i, w) in words.iter().enumerate() {
                p.add(i).write_volatile(*w);
            }
        }
    }

    /// Re-scribble a frame with fresh garbage (someone else reuses a released frame).
    pub fn scribble(&mut self, pa: u64, salt: u64) {
        let fno = pa >> 12;
        let p = self.commit(pa) as *mut u64;
        unsafe {
            for i in 0..512 {
                let sd = self.garbage_seed ^ salt.wrapping_mul(0xA24B_AED4_963E_E407);
                let g = garbage_word(sd, fno, i);
                let w = if self.sparse_hole(sd, fno, i) {
                    0
                } else if self.even_garbage {
                    (g & !1) | 0x10
                } else {
                    g
                };
                p.add(i).write_volatile(w);
            }
        }
    }

    pub fn zero_frame(&mut self, pa: u64) {
        let p = self.commit(pa) as *mut u64;
        unsafe {
            for i in 0..512 {
                p.add(i).write_volatile(0);
            }
        }
    }

    pub fn snapshot(&self) -> Vec<(u64, Box<[u64; 512]>)> {
        self.slots.keys().map(|&f| (f << 12, Box::new(self.read_frame(f << 12)))).collect()
    }

    /// Map the memfd page of `pa` at host address `at` (shared, read-write).
    pub fn map_at(&self, at: u64, pa: u64) {
        unsafe {
            let r = libc::mmap(
                at as *mut libc::c_void,
                PAGE as usize,
                libc::PROT_READ | libc::PROT_WRITE,
                libc::MAP_SHARED | libc::MAP_FIXED,
                self.fd,
                (pa & (PHYS_SIZE - 1) & !0xfff) as libc::off_t,
            );
            if r == libc::MAP_FAILED {
                die("map_at");
            }
        }
    }
}

/// Replace [at, at+len) by an inaccessible reservation.
pub fn protect_none(at: u64, len: u64) {
    unsafe {
        let r = libc::mmap(
            at as *mut libc::c_void,
            len as usize,
            libc::PROT_NONE,
            libc::MAP_PRIVATE | libc::MAP_ANONYMOUS | libc::MAP_NORESERVE | libc::MAP_FIXED,
            -1,
            0,
        );
        if r == libc::MAP_FAILED {
            die("protect_none");
        }
    }
}

/// Reserve [at, at+len) without replacing anything; false if something is already there.
pub fn reserve_noreplace(at: u64, len: u64) -> bool {
    unsafe {
        let r = libc::mmap(
            at as *mut libc::c_void,
            len as usize,
            libc::PROT_NONE,
            libc::MAP_PRIVATE | libc::MAP_ANONYMOUS | libc::MAP_NORESERVE | libc::MAP_FIXED_NOREPLACE,
            -1,
            0,
        );
        if r == libc::MAP_FAILED {
            return false;
        }
        if r as u64 != at {
            libc::munmap(r, len as usize);
            return false;
        }
        true
    }
}

pub fn unmap(at: u64, len: u64) {
    unsafe {
        libc::munmap(at as *mut libc::c_void, len as usize);
    }
}
