//! Own xoshiro256** + splitmix64. One stream per run; every decision of a run is drawn from it.

#[derive(Clone, Debug)]
pub struct Rng {
    s: [u64; 4],
}

pub fn splitmix64(x: &mut u64) -> u64 {
    *x = x.wrapping_add(0x9E37_79B9_7F4A_7C15);
    let mut z = *x;
    z = (z ^ (z >> 30)).wrapping_mul(0xBF58_476D_1CE4_E5B9);
    z = (z ^ (z >> 27)).wrapping_mul(0x94D0_49BB_1331_11EB);
    z ^ (z >> 31)
}

/// Stateless mix of two words (used for per-frame garbage so that it does not depend on commit order).
pub fn mix2(a: u64, b: u64) -> u64 {
    let mut x = a ^ b.rotate_left(32) ^ 0xD6E8_FEB8_6659_FD93;
    let r = splitmix64(&mut x);
    let mut y = r ^ b;
    splitmix64(&mut y)
}

impl Rng {
    pub fn new(seed: u64) -> Self {
        let mut x = seed;
        let s = [splitmix64(&mut x), splitmix64(&mut x), splitmix64(&mut x), splitmix64(&mut x)];
        Rng { s }
    }
    pub fn next(&mut self) -> u64 {
        let r = self.s[1].wrapping_mul(5).rotate_left(7).wrapping_mul(9);
        let t = self.s[1] << 17;
        self.s[2] ^= self.s[0];
        self.s[3] ^= self.s[1];
        self.s[1] ^= self.s[2];
        self.s[0] ^= self.s[3];
        self.s[2] ^= t;
        self.s[3] = self.s[3].rotate_left(45);
        r
    }
    /// uniform in 0..n (n > 0); slight modulo bias is irrelevant here
    pub fn below(&mut self, n: u64) -> u64 {
        debug_assert!(n > 0);
        ((self.next() as u128 * n as u128) >> 64) as u64
    }
    pub fn range(&mut self, lo: u64, hi_incl: u64) -> u64 {
        lo + self.below(hi_incl - lo + 1)
    }
    pub fn chance(&mut self, percent: u64) -> bool {
        self.below(100) < percent
    }
    pub fn pick<'a, T>(&mut self, xs: &'a [T]) -> &'a T {
        &xs[self.below(xs.len() as u64) as usize]
    }
    /// pick an index according to integer weights
    pub fn weighted(&mut self, w: &[u32]) -> usize {
        let total: u64 = w.iter().map(|&x| x as u64).sum();
        let mut r = self.below(total.max(1));
        for (i, &x) in w.iter().enumerate() {
            if r < x as u64 {
                return i;
            }
            r -= x as u64;
        }
        w.len() - 1
    }
    /// derive an independent child stream
    pub fn fork(&mut self) -> Rng {
        Rng::new(self.next())
    }
}
