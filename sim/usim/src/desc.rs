//! The CPU's side of descriptor tables: selector loads through the simulated GDTR, `ltr`, IDT gate
//! fetch and decode.  Written from SDM vol. 3 ch. 3, 5, 6, 7; reads the crate's tables as raw
//! bytes in host memory (the table addresses the crate handed to lgdt/lidt).

use crate::cpu::{Cpu, Ev, TaskReg};

#[derive(Clone, Copy, Debug, PartialEq, Eq)]
pub struct SegDesc {
    pub lo: u64,
    pub base32: u64,
    pub limit: u32,
    pub typ: u8,
    pub s: bool,
    pub dpl: u8,
    pub present: bool,
    pub avl: bool,
    pub long: bool,
    pub db: bool,
    pub gran: bool,
}

pub fn decode_seg(lo: u64) -> SegDesc {
    SegDesc {
        lo,
        base32: ((lo >> 16) & 0xff_ffff) | (((lo >> 56) & 0xff) << 24),
        limit: ((lo & 0xffff) | (((lo >> 48) & 0xf) << 16)) as u32,
        typ: ((lo >> 40) & 0xf) as u8,
        s: lo >> 44 & 1 != 0,
        dpl: ((lo >> 45) & 3) as u8,
        present: lo >> 47 & 1 != 0,
        avl: lo >> 52 & 1 != 0,
        long: lo >> 53 & 1 != 0,
        db: lo >> 54 & 1 != 0,
        gran: lo >> 55 & 1 != 0,
    }
}

impl SegDesc {
    pub fn is_code(&self) -> bool {
        self.s && self.typ & 8 != 0
    }
    pub fn is_data(&self) -> bool {
        self.s && self.typ & 8 == 0
    }
    pub fn writable(&self) -> bool {
        self.is_data() && self.typ & 2 != 0
    }
    pub fn readable_code(&self) -> bool {
        self.is_code() && self.typ & 2 != 0
    }
    pub fn conforming(&self) -> bool {
        self.is_code() && self.typ & 4 != 0
    }
}

#[derive(Clone, Copy, Debug, PartialEq, Eq)]
pub struct Gate {
    pub offset: u64,
    pub selector: u16,
    pub ist: u8,
    pub typ: u8,
    pub dpl: u8,
    pub present: bool,
    /// bits of the 16 bytes that the architecture reserves (must be zero): bits 3..7 of byte 4,
    /// bit 12 of the type word (the S bit of a system descriptor), the last dword
    pub reserved: u64,
    pub raw: [u64; 2],
}

pub fn decode_gate(lo: u64, hi: u64) -> Gate {
    let w2 = (lo >> 32) & 0xffff; // IST / type / DPL / P word
    Gate {
        offset: (lo & 0xffff) | (((lo >> 48) & 0xffff) << 16) | ((hi & 0xffff_ffff) << 32),
        selector: ((lo >> 16) & 0xffff) as u16,
        ist: (w2 & 7) as u8,
        typ: ((w2 >> 8) & 0xf) as u8,
        dpl: ((w2 >> 13) & 3) as u8,
        present: w2 >> 15 & 1 != 0,
        reserved: ((w2 >> 3) & 0x1f) | (((w2 >> 12) & 1) << 8) | ((hi >> 32) << 16),
        raw: [lo, hi],
    }
}

unsafe fn rd(addr: u64) -> u64 {
    (addr as *const u64).read_unaligned()
}

impl Cpu {
    fn refuse(&mut self, vec: u8, why: String) {
        self.faults += 1;
        self.trace.push(Ev::Fault { vec, why });
    }

    /// Fetch the 8-byte descriptor a selector refers to.  Err = (#GP reason)
    /// # Safety: GDTR must point to readable host memory (it is the crate's table).
    pub unsafe fn fetch_desc(&self, sel: u16, bytes: u64) -> Result<u64, String> {
        if sel & 4 != 0 {
            return Err(format!("selector {sel:#x} refers to the LDT"));
        }
        let off = (sel & !7) as u64;
        if off + bytes - 1 > self.gdtr.limit as u64 {
            return Err(format!("selector {sel:#x} beyond the GDT limit {:#x}", self.gdtr.limit));
        }
        Ok(self.gdtr.base + off)
    }

    /// mov sreg, r16 for sreg != CS (0 ES, 2 SS, 3 DS, 4 FS, 5 GS).
    /// # Safety: see fetch_desc
    pub unsafe fn load_data_seg(&mut self, sreg: u8, sel: u16) {
        self.trace.push(Ev::WriteSreg { sreg, val: sel });
        if sreg == 1 {
            return self.refuse(6, "mov to CS".into());
        }
        let null = sel & !3 == 0;
        if null {
            if sreg == 2 && (self.cpl == 3 || (sel & 3) as u8 != self.cpl) {
                return self.refuse(13, format!("null selector {sel:#x} into SS at CPL {}", self.cpl));
            }
            self.sel[sreg as usize] = sel;
            return;
        }
        let addr = match self.fetch_desc(sel, 8) {
            Ok(a) => a,
            Err(e) => return self.refuse(13, e),
        };
        let d = decode_seg(rd(addr));
        let rpl = (sel & 3) as u8;
        if sreg == 2 {
            if rpl != self.cpl || d.dpl != self.cpl || !d.writable() {
                return self.refuse(13, format!("SS load of {sel:#x}: descriptor {:#x} is not a writable data segment with RPL = DPL = CPL", d.lo));
            }
            if !d.present {
                return self.refuse(12, format!("SS load of {sel:#x}: segment not present"));
            }
        } else {
            if !(d.is_data() || d.readable_code()) {
                return self.refuse(13, format!("load of {sel:#x}: descriptor {:#x} is neither data nor readable code", d.lo));
            }
            if !d.conforming() && d.dpl < self.cpl.max(rpl) {
                return self.refuse(13, format!("load of {sel:#x}: DPL {} < max(CPL, RPL)", d.dpl));
            }
            if !d.present {
                return self.refuse(11, format!("load of {sel:#x}: segment not present"));
            }
        }
        // the CPU sets the accessed bit in the descriptor table
        if d.typ & 1 == 0 {
            let p = addr as *const core::sync::atomic::AtomicU64;
            (*p).fetch_or(1 << 40, core::sync::atomic::Ordering::SeqCst);
        }
        self.sel[sreg as usize] = sel;
        if sreg == 4 {
            self.fs_base = d.base32;
        }
        if sreg == 5 {
            self.gs_base = d.base32;
        }
    }

    /// CS load by far return / iret.  Returns false if refused.
    /// # Safety: see fetch_desc
    pub unsafe fn load_cs(&mut self, sel: u16) -> bool {
        if sel & !3 == 0 {
            self.refuse(13, "null selector into CS".into());
            return false;
        }
        let addr = match self.fetch_desc(sel, 8) {
            Ok(a) => a,
            Err(e) => {
                self.refuse(13, e);
                return false;
            }
        };
        let d = decode_seg(rd(addr));
        let rpl = (sel & 3) as u8;
        if !d.is_code() {
            self.refuse(13, format!("CS load of {sel:#x}: descriptor {:#x} is not a code segment", d.lo));
            return false;
        }
        if rpl < self.cpl {
            self.refuse(13, format!("CS load of {sel:#x}: RPL < CPL"));
            return false;
        }
        if (d.conforming() && d.dpl > rpl) || (!d.conforming() && d.dpl != rpl) {
            self.refuse(13, format!("CS load of {sel:#x}: DPL {} does not match RPL {}", d.dpl, rpl));
            return false;
        }
        if !d.present {
            self.refuse(11, format!("CS load of {sel:#x}: segment not present"));
            return false;
        }
        if d.long && d.db {
            self.refuse(13, format!("CS load of {sel:#x}: L and D both set"));
            return false;
        }
        if d.typ & 1 == 0 {
            let p = addr as *const core::sync::atomic::AtomicU64;
            (*p).fetch_or(1 << 40, core::sync::atomic::Ordering::SeqCst);
        }
        self.sel[1] = sel;
        self.cpl = rpl;
        true
    }

    /// # Safety: see fetch_desc
    pub unsafe fn ltr(&mut self, sel: u16) {
        self.trace.push(Ev::Ltr { sel });
        if self.cpl != 0 {
            return self.refuse(13, "ltr at CPL != 0".into());
        }
        if sel & !3 == 0 {
            return self.refuse(13, "ltr with a null selector".into());
        }
        let addr = match self.fetch_desc(sel, 16) {
            Ok(a) => a,
            Err(e) => return self.refuse(13, e),
        };
        let (lo, hi) = (rd(addr), rd(addr + 8));
        let d = decode_seg(lo);
        if d.s || d.typ != 0x9 {
            return self.refuse(13, format!("ltr {sel:#x}: descriptor {lo:#x} is not an available 64-bit TSS (type {:#x}, S={})", d.typ, d.s as u8));
        }
        if !d.present {
            return self.refuse(11, format!("ltr {sel:#x}: TSS not present"));
        }
        if (hi >> 40) & 0x1f != 0 {
            return self.refuse(13, format!("ltr {sel:#x}: upper half {hi:#x} has a non-zero type field (bits 8..12 of the last dword)"));
        }
        let base = d.base32 | ((hi & 0xffff_ffff) << 32);
        if !crate::hwwalk::is_canonical(base) {
            return self.refuse(13, format!("ltr {sel:#x}: non-canonical base {base:#x}"));
        }
        // mark busy in the table
        let p = addr as *const core::sync::atomic::AtomicU64;
        (*p).fetch_or(2 << 40, core::sync::atomic::Ordering::SeqCst);
        self.tr = TaskReg { sel, base, limit: if d.gran { (d.limit << 12) | 0xfff } else { d.limit }, typ: 0xb, present: true, dpl: d.dpl };
    }

    /// Fetch and decode the gate of vector `v` as interrupt delivery does.
    /// # Safety: IDTR must point to readable host memory.
    pub unsafe fn fetch_gate(&self, v: u8) -> Result<Gate, String> {
        let off = 16 * v as u64;
        if off + 15 > self.idtr.limit as u64 {
            return Err(format!("vector {v} beyond the IDT limit {:#x}", self.idtr.limit));
        }
        let a = self.idtr.base + off;
        Ok(decode_gate(rd(a), rd(a + 8)))
    }

    /// The stack pointer the CPU switches to for IST index `ist` (1..=7): read from the TSS in memory.
    /// # Safety: TR.base must point to readable host memory.
    pub unsafe fn ist_stack(&self, ist: u8) -> Result<u64, String> {
        if !self.tr.present {
            return Err("no task register loaded".into());
        }
        let off = 0x24 + 8 * (ist as u64 - 1);
        if off + 7 > self.tr.limit as u64 {
            return Err(format!("IST{ist} beyond the TSS limit {:#x}", self.tr.limit));
        }
        Ok(rd(self.tr.base + off))
    }
}
