//! Generic explore / replay / minimise / emit command-line driver for simulators whose runs are
//! (JSON config, list of JSON steps).  One seed = one run; replay files hold the explicit steps.

use serde::{Deserialize, Serialize};
use serde_json::{json, Value};
use std::collections::{BTreeMap, BTreeSet};
use std::io::{Read, Write};

#[derive(Clone, Debug, PartialEq, Eq, Serialize, Deserialize)]
pub struct Violation {
    pub properties: Vec<String>,
    pub oracle: String,
    pub step: usize,
    pub detail: String,
}

pub fn viol(props: &[&str], oracle: &str, step: usize, detail: String) -> Violation {
    Violation { properties: props.iter().map(|s| s.to_string()).collect(), oracle: oracle.to_string(), step, detail }
}

#[derive(Clone, Debug, PartialEq, Serialize, Deserialize)]
pub struct Replay {
    pub property: String,
    pub simulator: String,
    pub seed: u64,
    pub config: Value,
    pub steps: Vec<Value>,
    pub violation: Option<Violation>,
    pub minimised_from_steps: Option<usize>,
}

#[derive(Default, Clone, Debug)]
pub struct Stats {
    pub runs: u64,
    pub steps: u64,
    pub calls: u64,
    pub distinct: BTreeSet<u64>,
    pub counters: BTreeMap<String, u64>,
    /// rolling hash of the event log of the current run (reset by the driver per run)
    pub evhash: u64,
}

impl Stats {
    pub fn count(&mut self, k: &str) {
        *self.counters.entry(k.to_string()).or_insert(0) += 1;
    }
    pub fn add(&mut self, k: &str, n: u64) {
        *self.counters.entry(k.to_string()).or_insert(0) += n;
    }
    pub fn fold(&mut self, x: u64) {
        self.evhash = (self.evhash ^ x).wrapping_mul(0x100_0000_01b3).rotate_left(23) ^ 0x9E37_79B9;
    }
    /// fold a trapped-instruction / event trace into the run's event hash
    /// (kept for modules that want to mark a trace as consumed; the event hash itself is
    /// accumulated by `World::fold_trace`, which normalises host-dependent values)
    pub fn fold_trace(&mut self, trace: &[crate::cpu::Ev]) {
        self.fold(trace.len() as u64);
    }
    pub fn distinct_key(&mut self, parts: &[u64]) {
        let mut h = 0xcbf2_9ce4_8422_2325u64;
        for p in parts {
            h ^= *p;
            h = h.wrapping_mul(0x100_0000_01b3);
            h ^= h >> 29;
        }
        self.distinct.insert(h);
    }
}

pub trait Engine {
    fn name(&self) -> &'static str;
    fn gen(&self, seed: u64, focus: &str) -> Replay;
    /// execute from scratch; the first violation ends the run
    fn run(&self, rp: &Replay, st: &mut Stats) -> Option<Violation>;
    /// optional simplification candidates (besides dropping steps) for the minimiser
    fn simplify(&self, _rp: &Replay) -> Vec<Replay> {
        vec![]
    }
    /// called once per process before anything else (address-space checks etc.)
    fn init(&self) {}
}

/// `e.run`, with a panic that escapes it (a call into the crate the scenario module did not wrap)
/// turned into a violation of the run's property instead of the death of the process.
fn guarded_run(e: &dyn Engine, rp: &Replay, st: &mut Stats) -> Option<Violation> {
    match std::panic::catch_unwind(std::panic::AssertUnwindSafe(|| e.run(rp, st))) {
        Ok(v) => v,
        Err(p) => {
            let msg = p.downcast_ref::<String>().cloned().or_else(|| p.downcast_ref::<&str>().map(|s| s.to_string())).unwrap_or_else(|| "(non-string payload)".into());
            let w = crate::world::world();
            w.in_sut = false;
            w.mon_active = false;
            let props: Vec<&str> = vec![rp.property.as_str()];
            Some(viol(&props, "panic", 0, format!("the run panicked outside a guarded call site: {msg}")))
        }
    }
}

fn arg<'a>(args: &'a [String], name: &str) -> Option<&'a str> {
    args.iter().position(|a| a == name).and_then(|i| args.get(i + 1)).map(|s| s.as_str())
}

pub fn run_seed(base: u64, i: u64) -> u64 {
    base.wrapping_mul(1_000_003).wrapping_add(i)
}

#[derive(Debug, Clone, PartialEq)]
pub enum Verdict {
    Pass,
    Viol(Violation),
    Crash(String),
}

pub fn run_isolated(e: &dyn Engine, rp: &Replay) -> Verdict {
    unsafe {
        let mut fds = [0i32; 2];
        if libc::pipe(fds.as_mut_ptr()) != 0 {
            eprintln!("HARNESS-ERROR: pipe");
            std::process::exit(2);
        }
        let pid = libc::fork();
        if pid < 0 {
            eprintln!("HARNESS-ERROR: fork");
            std::process::exit(2);
        }
        if pid == 0 {
            libc::close(fds[0]);
            libc::dup2(fds[1], 2);
            let mut st = Stats::default();
            let v = guarded_run(e, rp, &mut st);
            let s = match v {
                None => "PASS\n".to_string(),
                Some(v) => format!("VIOL {}\n", serde_json::to_string(&v).unwrap()),
            };
            libc::write(fds[1], s.as_ptr() as *const libc::c_void, s.len());
            libc::_exit(0);
        }
        libc::close(fds[1]);
        let mut f = <std::fs::File as std::os::fd::FromRawFd>::from_raw_fd(fds[0]);
        let mut out = String::new();
        let _ = f.read_to_string(&mut out);
        let mut status = 0i32;
        libc::waitpid(pid, &mut status, 0);
        let exited_ok = libc::WIFEXITED(status) && libc::WEXITSTATUS(status) == 0;
        for line in out.lines() {
            if exited_ok && line == "PASS" {
                return Verdict::Pass;
            }
            if exited_ok {
                if let Some(j) = line.strip_prefix("VIOL ") {
                    if let Ok(v) = serde_json::from_str::<Violation>(j) {
                        return Verdict::Viol(v);
                    }
                }
            }
        }
        let code = if libc::WIFEXITED(status) { libc::WEXITSTATUS(status) } else { 128 + libc::WTERMSIG(status) };
        if code == 2 {
            eprintln!("HARNESS-ERROR in isolated run: {out}");
            std::process::exit(2);
        }
        Verdict::Crash(format!("exit {code}: {}", out.lines().find(|l| l.starts_with("FATAL-FAULT")).unwrap_or("")))
    }
}

fn same_failure(want: &Verdict, got: &Verdict) -> bool {
    match (want, got) {
        (Verdict::Viol(a), Verdict::Viol(b)) => a.oracle == b.oracle && a.properties == b.properties,
        (Verdict::Crash(_), Verdict::Crash(_)) => true,
        _ => false,
    }
}

fn crash_violation(prop: &str, msg: &str, step: usize) -> Violation {
    Violation { properties: vec![prop.to_string()], oracle: "fatal-fault".into(), step, detail: format!("the system under test made an access or executed an instruction the simulated machine cannot resolve ({msg})") }
}

pub fn minimise(e: &dyn Engine, mut rp: Replay, want: &Verdict) -> Replay {
    let orig = rp.steps.len();
    let mut tries = 0u32;
    let test = |cand: &Replay, tries: &mut u32| -> bool {
        *tries += 1;
        *tries < 3000 && same_failure(want, &run_isolated(e, cand))
    };
    if let Verdict::Viol(v) = want {
        if v.step + 1 < rp.steps.len() {
            let mut c = rp.clone();
            c.steps.truncate(v.step + 1);
            if test(&c, &mut tries) {
                rp = c;
            }
        }
    }
    let mut n = 2usize;
    while rp.steps.len() >= 2 {
        let len = rp.steps.len();
        let chunk = (len + n - 1) / n;
        let mut reduced = false;
        let mut start = 0;
        while start < len {
            let end = (start + chunk).min(len);
            let mut c = rp.clone();
            c.steps.drain(start..end);
            if !c.steps.is_empty() && test(&c, &mut tries) {
                rp = c;
                n = (n - 1).max(2);
                reduced = true;
                break;
            }
            start = end;
        }
        if !reduced {
            if chunk == 1 {
                break;
            }
            n = (n * 2).min(len);
        }
    }
    // engine-specific simplifications, to a fixpoint (bounded)
    // (candidates are computed from the current replay: accept one, then recompute)
    for _ in 0..64 {
        let mut changed = false;
        for c in e.simplify(&rp) {
            if c != rp && test(&c, &mut tries) {
                rp = c;
                changed = true;
                break;
            }
        }
        if !changed {
            break;
        }
    }
    rp.minimised_from_steps = Some(orig);
    rp
}

pub fn write_replay(path: &str, rp: &Replay) {
    if let Some(dir) = std::path::Path::new(path).parent() {
        let _ = std::fs::create_dir_all(dir);
    }
    std::fs::write(path, serde_json::to_string_pretty(rp).unwrap()).unwrap_or_else(|e| {
        eprintln!("HARNESS-ERROR: cannot write {path}: {e}");
        std::process::exit(2);
    });
}

pub fn read_replay(path: &str) -> Replay {
    let s = std::fs::read_to_string(path).unwrap_or_else(|e| {
        eprintln!("HARNESS-ERROR: cannot read {path}: {e}");
        std::process::exit(2);
    });
    serde_json::from_str(&s).unwrap_or_else(|e| {
        eprintln!("HARNESS-ERROR: cannot parse {path}: {e}");
        std::process::exit(2);
    })
}

/// A process forked before the first run that never executes the crate's code itself: every run
/// it is asked for executes in a child forked from *it*, i.e. with the process-wide state (statics
/// of the crate, caches) a freshly started program has.  What a change hides in a `static` is
/// otherwise only seen by the first run of each worker.
pub struct Zygote {
    tx: i32,
    rx: std::io::BufReader<std::fs::File>,
    pid: i32,
}

impl Zygote {
    pub fn spawn(e: &dyn Engine, prop: &str) -> Zygote {
        Zygote::spawn_raw(&|seed| {
            let rp = e.gen(seed, prop);
            match run_isolated(e, &rp) {
                Verdict::Pass => "PASS".to_string(),
                Verdict::Viol(v) => format!("VIOL {}", serde_json::to_string(&v).unwrap()),
                Verdict::Crash(m) => format!("CRASH {}", m),
            }
        })
    }

    /// `answer(seed)` runs in the zygote and must itself execute the run in a forked child.
    pub fn spawn_raw(answer: &dyn Fn(u64) -> String) -> Zygote {
        unsafe {
            let (mut to, mut from) = ([0i32; 2], [0i32; 2]);
            if libc::pipe(to.as_mut_ptr()) != 0 || libc::pipe(from.as_mut_ptr()) != 0 {
                eprintln!("HARNESS-ERROR: pipe");
                std::process::exit(2);
            }
            let pid = libc::fork();
            if pid < 0 {
                eprintln!("HARNESS-ERROR: fork");
                std::process::exit(2);
            }
            if pid == 0 {
                libc::close(to[1]);
                libc::close(from[0]);
                loop {
                    let mut b = [0u8; 8];
                    let mut got = 0usize;
                    while got < 8 {
                        let n = libc::read(to[0], b.as_mut_ptr().add(got) as *mut libc::c_void, 8 - got);
                        if n <= 0 {
                            libc::_exit(0);
                        }
                        got += n as usize;
                    }
                    let mut line = answer(u64::from_le_bytes(b)).replace('\n', " ");
                    line.push('\n');
                    libc::write(from[1], line.as_ptr() as *const libc::c_void, line.len());
                }
            }
            libc::close(to[0]);
            libc::close(from[1]);
            let f = <std::fs::File as std::os::fd::FromRawFd>::from_raw_fd(from[0]);
            Zygote { tx: to[1], rx: std::io::BufReader::new(f), pid }
        }
    }

    /// the raw answer line for `seed`
    pub fn ask(&mut self, seed: u64) -> String {
        use std::io::BufRead;
        let b = seed.to_le_bytes();
        unsafe { libc::write(self.tx, b.as_ptr() as *const libc::c_void, 8) };
        let mut line = String::new();
        let _ = self.rx.read_line(&mut line);
        line.trim_end().to_string()
    }

    pub fn run(&mut self, seed: u64) -> Verdict {
        let line = self.ask(seed);
        if line == "PASS" {
            return Verdict::Pass;
        }
        if let Some(j) = line.strip_prefix("VIOL ") {
            if let Ok(v) = serde_json::from_str::<Violation>(j) {
                return Verdict::Viol(v);
            }
        }
        if let Some(m) = line.strip_prefix("CRASH ") {
            return Verdict::Crash(m.to_string());
        }
        eprintln!("HARNESS-ERROR: fresh-process runner answered {line:?}");
        std::process::exit(2);
    }
}

impl Drop for Zygote {
    fn drop(&mut self) {
        unsafe {
            libc::close(self.tx);
            let mut st = 0i32;
            libc::waitpid(self.pid, &mut st, 0);
        }
    }
}

pub fn main_driver(e: &dyn Engine) {
    let args: Vec<String> = std::env::args().collect();
    let cmd = args.get(1).map(|s| s.as_str()).unwrap_or("");
    e.init();
    match cmd {
        "emit" => {
            let seed: u64 = args[2].parse().unwrap();
            let prop = args.get(3).map(|s| s.as_str()).unwrap_or("");
            println!("{}", serde_json::to_string_pretty(&e.gen(seed, prop)).unwrap());
        }
        "replay" => {
            let rp = read_replay(&args[2]);
            let v = if args.iter().any(|a| a == "--isolated") {
                run_isolated(e, &rp)
            } else {
                let mut st = Stats::default();
                match guarded_run(e, &rp, &mut st) {
                    None => Verdict::Pass,
                    Some(v) => Verdict::Viol(v),
                }
            };
            match v {
                Verdict::Pass => {
                    println!("PASS");
                    std::process::exit(0)
                }
                Verdict::Viol(v) => {
                    println!("FAIL {}", serde_json::to_string(&v).unwrap());
                    std::process::exit(1)
                }
                Verdict::Crash(m) => {
                    println!("FAIL {}", serde_json::to_string(&crash_violation(&rp.property, &m, 0)).unwrap());
                    std::process::exit(1)
                }
            }
        }
        "minimise" => {
            let mut rp = read_replay(&args[2]);
            let out = &args[3];
            let want = run_isolated(e, &rp);
            if want == Verdict::Pass {
                eprintln!("HARNESS-ERROR: {} does not fail when replayed", args[2]);
                std::process::exit(2);
            }
            let from = rp.steps.len();
            rp = minimise(e, rp, &want);
            let got = run_isolated(e, &rp);
            if !same_failure(&want, &got) {
                eprintln!("HARNESS-ERROR: minimised replay does not reproduce ({got:?})");
                std::process::exit(2);
            }
            rp.violation = match got {
                Verdict::Viol(v) => Some(v),
                Verdict::Crash(m) => Some(crash_violation(&rp.property, &m, rp.steps.len().saturating_sub(1))),
                Verdict::Pass => None,
            };
            write_replay(out, &rp);
            println!("MINIMISED {} -> {} steps: {}", from, rp.steps.len(), out);
        }
        "explore" => {
            let prop = arg(&args, "--prop").unwrap_or("").to_string();
            let base: u64 = arg(&args, "--seed").and_then(|s| s.parse().ok()).unwrap_or(1);
            let start: u64 = arg(&args, "--start").and_then(|s| s.parse().ok()).unwrap_or(0);
            let count: u64 = arg(&args, "--count").and_then(|s| s.parse().ok()).unwrap_or(100);
            let stride: u64 = arg(&args, "--stride").and_then(|s| s.parse().ok()).unwrap_or(1);
            let deadline: f64 = arg(&args, "--deadline").and_then(|s| s.parse().ok()).unwrap_or(1e9);
            let out = arg(&args, "--out").unwrap_or("/dev/stdout").to_string();
            let rdir = arg(&args, "--replay-dir").unwrap_or("/verif/replays").to_string();
            let max_viol: usize = arg(&args, "--max-violations").and_then(|s| s.parse().ok()).unwrap_or(3);
            let log = arg(&args, "--event-log").map(|s| s.to_string());
            let cur_path = format!("{out}.cur");
            let t0 = std::time::Instant::now();
            let mut st = Stats::default();
            let mut viols: Vec<Value> = vec![];
            let mut samples: Vec<Value> = vec![];
            let mut logf = log.map(|p| std::fs::File::create(p).unwrap());
            let mut done = 0u64;
            let mut k = start;
            // one run in FRESH_EVERY is repeated in a process with pristine process-wide state
            let fresh_every: u64 = arg(&args, "--fresh-every").and_then(|s| s.parse().ok()).unwrap_or(8);
            let mut zygote = if fresh_every > 0 { Some(Zygote::spawn(e, &prop)) } else { None };
            while done < count {
                if t0.elapsed().as_secs_f64() > deadline {
                    break;
                }
                let seed = run_seed(base, k);
                let _ = std::fs::write(&cur_path, format!("{seed}"));
                let rp = e.gen(seed, &prop);
                if samples.len() < 3 && rp.steps.len() <= 10 {
                    samples.push(json!({"seed": seed, "config": rp.config, "steps": rp.steps}));
                }
                let before = (st.steps, st.calls);
                st.runs += 1;
                st.evhash = 0;
                crate::world::world().evhash = 0;
                let v = guarded_run(e, &rp, &mut st);
                {
                    let w = crate::world::world();
                    w.fold_trace();
                    w.cpu.trace.clear();
                    st.evhash ^= w.evhash;
                }
                if let Some(f) = logf.as_mut() {
                    let _ = writeln!(f, "{seed} steps={} calls={} distinct={} evhash={:016x} viol={}", st.steps - before.0, st.calls - before.1, st.distinct.len(), st.evhash, v.as_ref().map(|v| format!("{}@{}:{}", v.oracle, v.step, v.detail)).unwrap_or_default());
                }
                let v = match (v, zygote.as_mut()) {
                    (None, Some(z)) if crate::prng::mix2(seed, 0xf5e5) % fresh_every == 0 => {
                        st.count("runs_repeated_in_a_fresh_process");
                        match z.run(seed) {
                            Verdict::Pass => None,
                            Verdict::Viol(v) => {
                                st.count("violations_only_in_a_fresh_process");
                                Some(v)
                            }
                            Verdict::Crash(m) => Some(crash_violation(&prop, &m, 0)),
                        }
                    }
                    (v, _) => v,
                };
                if let Some(v) = v {
                    let mut rp = rp;
                    rp.violation = Some(v.clone());
                    let path = format!("{rdir}/{}-{}-{seed}.json", e.name(), prop);
                    write_replay(&path, &rp);
                    viols.push(json!({"seed": seed, "replay": path, "violation": v}));
                    if viols.len() >= max_viol {
                        done += 1;
                        break;
                    }
                }
                done += 1;
                k += stride;
            }
            drop(zygote);
            let _ = std::fs::remove_file(&cur_path);
            let mut stats = serde_json::Map::new();
            stats.insert("runs".into(), json!(st.runs));
            stats.insert("steps".into(), json!(st.steps));
            stats.insert("calls".into(), json!(st.calls));
            stats.insert("distinct".into(), json!(st.distinct.len()));
            stats.insert("counters".into(), json!(st.counters));
            let res = json!({
                "property": prop, "base_seed": base, "start": start, "stride": stride, "runs_done": done,
                "wall_s": t0.elapsed().as_secs_f64(), "stats": stats, "violations": viols, "samples": samples,
                "distinct_keys": st.distinct.iter().cloned().collect::<Vec<u64>>(),
            });
            std::fs::write(&out, serde_json::to_string(&res).unwrap()).unwrap();
            std::process::exit(if viols.is_empty() { 0 } else { 1 });
        }
        _ => {
            eprintln!("usage: {} explore|replay|minimise|emit ...", e.name());
            std::process::exit(2);
        }
    }
}
