//! Independent hardware-style 4-level page walk over the raw little-endian bytes of simulated
//! physical memory.  Own constants (SDM vol. 3 ch. 4.5); never calls the crate under test.

use crate::physmem::PhysMem;

pub const P: u64 = 1 << 0;
pub const W: u64 = 1 << 1;
pub const U: u64 = 1 << 2;
pub const PS: u64 = 1 << 7;
pub const G: u64 = 1 << 8;
pub const NX: u64 = 1 << 63;
/// bits 12..51
pub const ADDR: u64 = 0x000f_ffff_ffff_f000;
pub const ADDR_2M: u64 = 0x000f_ffff_ffe0_0000;
pub const ADDR_1G: u64 = 0x000f_ffff_c000_0000;
/// everything that is not an address bit in a 4 KiB leaf / table pointer
pub const FLAGS_4K: u64 = !ADDR;

#[derive(Clone, Copy, Debug, PartialEq, Eq)]
pub enum PgSize {
    K4,
    M2,
    G1,
}

impl PgSize {
    pub fn bytes(self) -> u64 {
        match self {
            PgSize::K4 => 1 << 12,
            PgSize::M2 => 1 << 21,
            PgSize::G1 => 1 << 30,
        }
    }
}

#[derive(Clone, Copy, Debug, PartialEq, Eq)]
pub struct Walk {
    /// physical address the virtual address translates to
    pub pa: u64,
    /// start of the frame
    pub frame: u64,
    pub size: PgSize,
    /// raw leaf entry
    pub leaf: u64,
    /// leaf entry with the frame address bits removed (bit 12 counts as a flag only on huge leaves)
    pub leaf_flags: u64,
    pub eff_w: bool,
    pub eff_u: bool,
    pub eff_nx: bool,
    pub global: bool,
}

pub fn is_canonical(va: u64) -> bool {
    let top = va >> 47;
    top == 0 || top == 0x1ffff
}

pub fn idx(va: u64, level: u32) -> u64 {
    (va >> (12 + 9 * (level - 1))) & 0x1ff
}

/// Walk from the table at physical address `root` (CR3 with the low 12 bits stripped).
pub fn walk(mem: &PhysMem, root: u64, va: u64) -> Option<Walk> {
    if !is_canonical(va) {
        return None;
    }
    let mut table = root & ADDR;
    let (mut w, mut u, mut nx) = (true, true, false);
    for level in (1..=4u32).rev() {
        let e = mem.read_u64(table + 8 * idx(va, level));
        if e & P == 0 {
            return None;
        }
        w &= e & W != 0;
        u &= e & U != 0;
        nx |= e & NX != 0;
        let leaf = level == 1 || (level <= 3 && e & PS != 0);
        if leaf {
            let (size, amask) = match level {
                1 => (PgSize::K4, ADDR),
                2 => (PgSize::M2, ADDR_2M),
                _ => (PgSize::G1, ADDR_1G),
            };
            let frame = e & amask;
            let off = va & (size.bytes() - 1);
            let leaf_flags = e & !amask;
            return Some(Walk {
                pa: frame + off,
                frame,
                size,
                leaf: e,
                leaf_flags,
                eff_w: w,
                eff_u: u,
                eff_nx: nx,
                global: e & G != 0,
            });
        }
        table = e & ADDR;
    }
    unreachable!()
}
