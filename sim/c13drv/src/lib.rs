//! Driver half of cpusim's C13 scenarios, compiled at opt-level 1 (see Cargo.toml):
//!
//! * every expansion of `x86_64::set_general_handler!` (the macro generates 256
//!   `extern "x86-interrupt"` stubs per expansion, in the expanding crate),
//! * the recording general handler those stubs call,
//! * the assembly trampolines that play the CPU: build a hardware-format interrupt frame on an
//!   interrupt stack and enter a gate's handler address; receive the stub's `iretq`; leave a
//!   diverging stub through a saved context; call a function that never returns
//!   (`InterruptStackFrameValue::iretq`).
//!
//! No oracle lives here: cpusim/src/c13.rs decides.
#![feature(abi_x86_interrupt)]
#![allow(static_mut_refs)]

use core::ops::Bound;
use x86_64::set_general_handler;
use x86_64::structures::idt::{InterruptDescriptorTable, InterruptStackFrame, InterruptStackFrameValue};

/// What the general handler saw.
#[derive(Clone, Copy, Debug, Default, PartialEq, Eq)]
#[repr(C)]
pub struct Rec {
    pub calls: u64,
    /// which of the two general handlers ran (0: `handler`, 1: `handler_b`)
    pub which: u8,
    pub index: u8,
    pub has_err: bool,
    pub err: u64,
    /// instruction_pointer, code_segment, cpu_flags, stack_pointer, stack_segment
    pub frame: [u64; 5],
}

static mut REC: Rec = Rec { calls: 0, which: 0, index: 0, has_err: false, err: 0, frame: [0; 5] };
/// set by the deliverer for the vectors whose stubs must not be returned into (8, 18)
static mut ESCAPE: bool = false;

pub fn rec_reset() {
    unsafe { core::ptr::write_volatile(&raw mut REC, Rec::default()) }
}
pub fn rec_get() -> Rec {
    unsafe { core::ptr::read_volatile(&raw const REC) }
}

fn record(which: u8, frame: InterruptStackFrame, index: u8, error_code: Option<u64>) {
    unsafe {
        let mut r = core::ptr::read_volatile(&raw const REC);
        r.calls += 1;
        r.which = which;
        r.index = index;
        r.has_err = error_code.is_some();
        r.err = error_code.unwrap_or(0);
        r.frame = [
            frame.instruction_pointer.as_u64(),
            frame.code_segment.0 as u64,
            frame.cpu_flags.bits(),
            frame.stack_pointer.as_u64(),
            frame.stack_segment.0 as u64,
        ];
        core::ptr::write_volatile(&raw mut REC, r);
        if core::ptr::read_volatile(&raw const ESCAPE) {
            core::ptr::write_volatile(&raw mut ESCAPE, false);
            c13_escape();
        }
    }
}

/// The two general handlers the forms below install (a kernel may well use one general handler
/// for exceptions and another for device interrupts).
pub fn handler(frame: InterruptStackFrame, index: u8, error_code: Option<u64>) {
    record(0, frame, index, error_code)
}
pub fn handler_b(frame: InterruptStackFrame, index: u8, error_code: Option<u64>) {
    record(1, frame, index, error_code)
}

/// The literals for which the single-index form `set_general_handler!(idt, handler, N)` is
/// pre-instantiated (the macro needs a literal there).
pub const LITERALS: [u8; 8] = [0, 8, 9, 14, 15, 18, 32, 255];

fn bound(kind: u8, v: u8) -> Bound<u8> {
    match kind {
        0 => Bound::Included(v),
        1 => Bound::Excluded(v),
        _ => Bound::Unbounded,
    }
}

static mut IDT_EVALS: u32 = 0;
static mut RANGE_EVALS: u32 = 0;

fn once_idt(idt: &mut InterruptDescriptorTable) -> &mut InterruptDescriptorTable {
    unsafe { core::ptr::write_volatile(&raw mut IDT_EVALS, core::ptr::read_volatile(&raw const IDT_EVALS) + 1) };
    idt
}
fn once_range(r: core::ops::RangeInclusive<u8>) -> core::ops::RangeInclusive<u8> {
    unsafe { core::ptr::write_volatile(&raw mut RANGE_EVALS, core::ptr::read_volatile(&raw const RANGE_EVALS) + 1) };
    r
}
pub fn evals_reset() {
    unsafe {
        core::ptr::write_volatile(&raw mut IDT_EVALS, 0);
        core::ptr::write_volatile(&raw mut RANGE_EVALS, 0);
    }
}
/// how often the table expression and the range expression of form 7 were evaluated
pub fn evals() -> (u32, u32) {
    unsafe { (core::ptr::read_volatile(&raw const IDT_EVALS), core::ptr::read_volatile(&raw const RANGE_EVALS)) }
}

macro_rules! forms {
    ($all:ident, $lit:ident, $range:ident, $h:ident) => {
        /// `set_general_handler!(idt, handler)` — the whole-table form.
        fn $all(idt: &mut InterruptDescriptorTable) {
            set_general_handler!(idt, $h);
        }
        fn $lit(idt: &mut InterruptDescriptorTable, which: usize) {
            match which {
                0 => set_general_handler!(idt, $h, 0),
                1 => set_general_handler!(idt, $h, 8),
                2 => set_general_handler!(idt, $h, 9),
                3 => set_general_handler!(idt, $h, 14),
                4 => set_general_handler!(idt, $h, 15),
                5 => set_general_handler!(idt, $h, 18),
                6 => set_general_handler!(idt, $h, 32),
                _ => set_general_handler!(idt, $h, 255),
            }
        }
        /// The range form (the macro takes any runtime `impl RangeBounds<u8>` expression).
        /// form: 0 `lo..hi`, 1 `lo..=hi`, 2 `lo..`, 3 `..hi`, 4 `..=hi`, 5 `..`, 6 `(Bound, Bound)`
        /// with bound kinds sk/ek (0 included, 1 excluded, 2 unbounded).
        fn $range(idt: &mut InterruptDescriptorTable, form: u8, lo: u8, hi: u8, sk: u8, ek: u8) {
            match form {
                0 => set_general_handler!(idt, $h, lo..hi),
                1 => set_general_handler!(idt, $h, lo..=hi),
                2 => set_general_handler!(idt, $h, lo..),
                3 => set_general_handler!(idt, $h, ..hi),
                4 => set_general_handler!(idt, $h, ..=hi),
                5 => set_general_handler!(idt, $h, ..),
                // both arguments are expressions with a side effect (a work-list pop, a per-CPU
                // iterator): each must be evaluated exactly once
                7 => set_general_handler!(once_idt(idt), $h, once_range(lo..=hi)),
                _ => set_general_handler!(idt, $h, (bound(sk, lo), bound(ek, hi))),
            }
        }
    };
}
forms!(all_a, lit_a, range_a, handler);
forms!(all_b, lit_b, range_b, handler_b);

/// `h` selects the general handler (0: `handler`, otherwise `handler_b`).
pub fn install_all(idt: &mut InterruptDescriptorTable, h: u8) {
    if h == 0 { all_a(idt) } else { all_b(idt) }
}
pub fn install_literal(idt: &mut InterruptDescriptorTable, which: usize, h: u8) {
    if h == 0 { lit_a(idt, which) } else { lit_b(idt, which) }
}
pub fn install_range(idt: &mut InterruptDescriptorTable, form: u8, lo: u8, hi: u8, sk: u8, ek: u8, h: u8) {
    if h == 0 { range_a(idt, form, lo, hi, sk, ek) } else { range_b(idt, form, lo, hi, sk, ek) }
}

// ---- the CPU's part of interrupt delivery -------------------------------------------------------

/// Order of the general-purpose registers in `Entry::regs` / `Resume::regs`.
pub const REG_NAMES: [&str; 15] = ["rax", "rbx", "rcx", "rdx", "rsi", "rdi", "rbp", "r8", "r9", "r10", "r11", "r12", "r13", "r14", "r15"];

#[repr(C)]
pub struct Entry {
    /// handler address taken from the gate
    pub target: u64,
    /// stack the frame is pushed on (16-byte aligned, as the CPU aligns it in 64-bit mode)
    pub stack_top: u64,
    pub has_err: u64,
    pub err: u64,
    /// RIP, CS, RFLAGS, RSP, SS as pushed (SS first)
    pub frame: [u64; 5],
    /// register contents at the moment of the interrupt
    pub regs: [u64; 15],
}

/// Register file where execution continued after the stub's `iretq`.
#[derive(Clone, Copy, Debug, Default)]
#[repr(C)]
pub struct Resume {
    pub regs: [u64; 15],
    pub rsp: u64,
    pub rflags: u64,
}

#[no_mangle]
static mut C13_CTX: [u64; 8] = [0; 8];
#[no_mangle]
static mut C13_OUT: Resume = Resume { regs: [0; 15], rsp: 0, rflags: 0 };
#[no_mangle]
static mut C13_TARGET: u64 = 0;

core::arch::global_asm!(
    r#"
    .text
    .global c13_deliver
    .global c13_cont
    .global c13_escape
    .global c13_call_noreturn

// extern "C" fn c13_deliver(e: *const Entry) -> u64
//   0: the stub returned with iretq to c13_cont;  1: left through c13_escape
c13_deliver:
    lea rax, [rip + C13_CTX]
    mov [rax], rbx
    mov [rax + 8], rbp
    mov [rax + 16], r12
    mov [rax + 24], r13
    mov [rax + 32], r14
    mov [rax + 40], r15
    mov [rax + 48], rsp
    mov rax, [rdi]
    mov [rip + C13_TARGET], rax
    mov rsp, [rdi + 8]
    push qword ptr [rdi + 64]
    push qword ptr [rdi + 56]
    push qword ptr [rdi + 48]
    push qword ptr [rdi + 40]
    push qword ptr [rdi + 32]
    cmp qword ptr [rdi + 16], 0
    je 2f
    push qword ptr [rdi + 24]
2:
    mov rax, [rdi + 72]
    mov rbx, [rdi + 80]
    mov rcx, [rdi + 88]
    mov rdx, [rdi + 96]
    mov rsi, [rdi + 104]
    mov rbp, [rdi + 120]
    mov r8,  [rdi + 128]
    mov r9,  [rdi + 136]
    mov r10, [rdi + 144]
    mov r11, [rdi + 152]
    mov r12, [rdi + 160]
    mov r13, [rdi + 168]
    mov r14, [rdi + 176]
    mov r15, [rdi + 184]
    mov rdi, [rdi + 112]
    jmp qword ptr [rip + C13_TARGET]

// the interrupted instruction: records the register file it is resumed with
c13_cont:
    mov [rip + C13_OUT + 0], rax
    mov [rip + C13_OUT + 8], rbx
    mov [rip + C13_OUT + 16], rcx
    mov [rip + C13_OUT + 24], rdx
    mov [rip + C13_OUT + 32], rsi
    mov [rip + C13_OUT + 40], rdi
    mov [rip + C13_OUT + 48], rbp
    mov [rip + C13_OUT + 56], r8
    mov [rip + C13_OUT + 64], r9
    mov [rip + C13_OUT + 72], r10
    mov [rip + C13_OUT + 80], r11
    mov [rip + C13_OUT + 88], r12
    mov [rip + C13_OUT + 96], r13
    mov [rip + C13_OUT + 104], r14
    mov [rip + C13_OUT + 112], r15
    mov [rip + C13_OUT + 120], rsp
    pushfq
    pop rax
    mov [rip + C13_OUT + 128], rax
    cld
    xor eax, eax
    jmp 3f

// extern "C" fn c13_escape() -> !   (leave a stub that must not return)
c13_escape:
    mov eax, 1
3:
    lea rcx, [rip + C13_CTX]
    mov rbx, [rcx]
    mov rbp, [rcx + 8]
    mov r12, [rcx + 16]
    mov r13, [rcx + 24]
    mov r14, [rcx + 32]
    mov r15, [rcx + 40]
    mov rsp, [rcx + 48]
    ret

// extern "C" fn c13_call_noreturn(arg: u64, f: extern "C" fn(u64) -> !) -> u64
//   saves the continuation, calls f(arg); comes back through c13_cont / c13_escape
c13_call_noreturn:
    lea rax, [rip + C13_CTX]
    mov [rax], rbx
    mov [rax + 8], rbp
    mov [rax + 16], r12
    mov [rax + 24], r13
    mov [rax + 32], r14
    mov [rax + 40], r15
    mov [rax + 48], rsp
    sub rsp, 8
    call rsi
    ud2
"#
);

extern "C" {
    fn c13_deliver(e: *const Entry) -> u64;
    fn c13_cont();
    fn c13_escape() -> !;
    fn c13_call_noreturn(arg: u64, f: extern "C" fn(u64) -> !) -> u64;
}

/// Address of the "interrupted instruction" (goes into the frame's RIP slot for native returns,
/// and is the landing address for trapped `iretq`s).
pub fn cont_addr() -> u64 {
    c13_cont as *const () as usize as u64
}

/// Enter `e.target` as the CPU enters an interrupt gate.  `diverging`: the stub must not be
/// returned into; the general handler leaves through the saved context after recording.
/// Returns (how, register file at the continuation): how = 0 the stub executed `iretq` and
/// execution continued at `c13_cont`; 1 left through the saved context.
///
/// # Safety: `e.target` must be code that follows the x86-interrupt convention.
pub unsafe fn deliver(e: &Entry, diverging: bool) -> (u64, Resume) {
    core::ptr::write_volatile(&raw mut ESCAPE, diverging);
    core::ptr::write_volatile(&raw mut C13_OUT, Resume::default());
    let how = c13_deliver(e);
    core::ptr::write_volatile(&raw mut ESCAPE, false);
    (how, core::ptr::read_volatile(&raw const C13_OUT))
}

extern "C" fn do_iretq(v: u64) -> ! {
    unsafe { (*(v as *const InterruptStackFrameValue)).iretq() }
}

/// Call `InterruptStackFrameValue::iretq` on `v`; the caller must have arranged that the `iretq`
/// traps and lands on `cont_addr()`.
///
/// # Safety: see above.
pub unsafe fn call_iretq(v: &InterruptStackFrameValue) -> Resume {
    core::ptr::write_volatile(&raw mut C13_OUT, Resume::default());
    c13_call_noreturn(v as *const _ as u64, do_iretq);
    core::ptr::read_volatile(&raw const C13_OUT)
}
