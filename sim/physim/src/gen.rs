//! Seeded swarm generator: one seed → one run description (configuration + explicit steps).
//! Uses nothing but the PRNG stream: never the system under test.

use crate::alloc::Zones;
use crate::steps::{AllocCfg, Config, Policy, Replay, Size, Step, View};
use usim::prng::Rng;

const FLAG_BITS: [u32; 22] = [1, 2, 3, 4, 5, 6, 8, 9, 10, 11, 52, 53, 54, 55, 56, 57, 58, 59, 60, 61, 62, 63];

fn canon(v: u64) -> u64 {
    let v = v & 0x0000_ffff_ffff_ffff;
    if v & (1 << 47) != 0 {
        v | 0xffff_0000_0000_0000
    } else {
        v
    }
}

fn rand_flags(rng: &mut Rng, density: u64) -> u64 {
    let mut f = 1u64;
    for b in FLAG_BITS {
        if rng.chance(density) {
            f |= 1 << b;
        }
    }
    f
}

struct Gen<'a> {
    rng: &'a mut Rng,
    zones: Zones,
    pages: Vec<(u64, Size)>,
    frames: Vec<(u64, Size)>,
    sizes: Vec<Size>,
    rec: Option<u16>,
    pat4k: bool,
    pat_huge: bool,
    np_leaf: bool,
    fail_rate: u64,
    flag_density: u64,
}

impl<'a> Gen<'a> {
    fn size(&mut self) -> Size {
        *self.rng.pick(&self.sizes.clone())
    }

    fn page(&mut self, size: Size) -> u64 {
        for _ in 0..4 {
            let p = self.page_once(size);
            if let Some(r) = self.rec {
                if (p >> 39) & 0x1ff == r as u64 {
                    continue;
                }
            }
            return p;
        }
        self.page_once(size)
    }

    fn page_once(&mut self, size: Size) -> u64 {
        let al = !(size.bytes() - 1);
        let kind = if self.pages.is_empty() { 99 } else { self.rng.below(100) };
        let v = if kind < 55 {
            let (p, _) = *self.rng.pick(&self.pages.clone());
            p
        } else if kind < 70 {
            let (p, s) = *self.rng.pick(&self.pages.clone());
            if s.bytes() > size.bytes() {
                p + self.rng.below(s.bytes() / size.bytes()) * size.bytes()
            } else {
                p
            }
        } else if kind < 85 {
            let (p, _) = *self.rng.pick(&self.pages.clone());
            let d = *self.rng.pick(&[size.bytes(), 1 << 12, 1 << 21, 1 << 30, 1 << 39]);
            let lin = p & 0x0000_ffff_ffff_ffff;
            let n = if self.rng.chance(50) { lin.wrapping_add(d) } else { lin.wrapping_sub(d) };
            canon(n)
        } else if kind < 90 {
            *self.rng.pick(&[0u64, 0x0000_7fff_ffff_f000, 0xffff_8000_0000_0000, 0xffff_ffff_ffff_f000])
        } else {
            // fresh: a few hot P4 slots make collisions in upper tables likely
            let p4 = match self.rng.below(4) {
                0 => self.rng.below(512),
                1 => 256 + self.rng.below(4),
                2 => 511,
                _ => self.rng.below(4),
            };
            let rest = if self.rng.chance(50) { self.rng.below(1 << 39) } else { self.rng.below(4) << 30 | self.rng.below(4) << 21 | self.rng.below(8) << 12 };
            canon(p4 << 39 | rest)
        };
        let mut v = canon(v);
        // recursive view: lower-level indices that coincide with the recursive index
        if let Some(r) = self.rec {
            if self.rng.chance(8) {
                let lvl = self.rng.below(3);
                let sh = 30 - 9 * lvl;
                v = canon((v & !(0x1ff << sh)) | ((r as u64) << sh));
            }
        }
        v & al
    }

    fn frame(&mut self, size: Size, identity: bool) -> u64 {
        let al = !(size.bytes() - 1);
        for _ in 0..64 {
            let kind = if self.frames.is_empty() { 99 } else { self.rng.below(100) };
            // (rarely an identity frame whose address is no canonical virtual address)
            if identity && self.rng.chance(3) {
                let f = ((1u64 << 47) + self.rng.below((1 << 52) - (1 << 47))) & al;
                if !self.zones.is_table_zone(f) {
                    return f;
                }
            }
            let limit_bits = if identity { 47 } else { 52 };
            let f = if kind < 30 {
                let (f, s) = *self.rng.pick(&self.frames.clone());
                if s.bytes() > size.bytes() {
                    f + self.rng.below(s.bytes() / size.bytes()) * size.bytes()
                } else {
                    f
                }
            } else if kind < 40 {
                *self.rng.pick(&[0u64, (1 << limit_bits) - size.bytes(), 1 << 30, (1 << 32) - size.bytes(), 1 << 32])
            } else if kind < 70 {
                self.rng.below(1 << 34)
            } else {
                self.rng.below(1 << limit_bits)
            } & al
                & ((1u64 << limit_bits) - 1);
            if self.zones.is_table_zone(f) {
                continue;
            }
            if identity {
                if let Some(r) = self.rec {
                    if (f >> 39) & 0x1ff == r as u64 {
                        continue;
                    }
                }
            }
            return f;
        }
        // fall back: scan zones upwards from 1 GiB
        let mut z = 1u64;
        while self.zones.is_table_zone(z << 30) {
            z += 1;
        }
        z << 30
    }

    /// `allow_np`: the call takes explicit parent flags (or none), so a leaf without PRESENT does
    /// not produce non-present parent entries (map_to derives the parent flags from the leaf flags)
    fn leaf_flags(&mut self, size: Size, allow_np: bool) -> u64 {
        let mut f = rand_flags(self.rng, self.flag_density);
        if size == Size::K4 && self.pat4k && self.rng.chance(30) {
            f |= 0x80;
        }
        // non-present but non-zero leaf entries (swap / PROT_NONE style metadata)
        if allow_np && self.np_leaf && self.rng.chance(35) {
            f &= !1;
            f |= 1 << 9;
        }
        // PAT_HUGE_PAGE (bit 12) is a leaf flag of 2 MiB / 1 GiB entries only
        if size != Size::K4 && self.pat_huge && self.rng.chance(40) {
            f |= 0x1000;
        }
        f
    }

    /// parent flags of a map call: as in the documentation's own example they need not contain
    /// PRESENT (a new table is made present by the mapper)
    fn map_parent_flags(&mut self) -> u64 {
        let f = self.parent_flags();
        if self.rng.chance(15) {
            f & !1
        } else {
            f
        }
    }

    fn parent_flags(&mut self) -> u64 {
        let mut f = rand_flags(self.rng, self.flag_density);
        if self.rec.is_some() {
            f |= 2;
        }
        f
    }

    fn fail(&mut self) -> u8 {
        if !self.rng.chance(self.fail_rate) {
            return 0;
        }
        match self.rng.below(10) {
            0..=2 => 1,
            3..=4 => 2,
            5..=6 => 4,
            7 => 0x80,
            8 => 3,
            _ => 6,
        }
    }
}

pub fn gen_replay(seed: u64, focus_arg: &str) -> Replay {
    // "C01+long" (thorough tier): some runs are much longer, so that hierarchies get bigger
    let long = focus_arg.ends_with("+long");
    let focus = focus_arg.trim_end_matches("+long");
    let mut rng = Rng::new(seed ^ 0x5eed_0000_0000_0000);
    let view = match if focus == "C20" { 2 } else { rng.weighted(&[40, 40, 20]) } {
        0 => {
            let lo = 176u64 << 39;
            let room = (64u64 << 39) - (1 << 44);
            View::Offset { phys_offset: lo + (rng.below(room >> 12) << 12) }
        }
        1 => View::Mapped,
        // one or two recursive runs in a hundred use a kernel-half recursive index (where kernels keep
        // it; every table access then costs two signals, a run about 0.3 s);
        // its table accesses are steered to the frames one instruction at a time (usim::world::redirect)
        _ if rng.chance(if focus == "C20" { 1 } else { 2 }) => View::Recursive { r: *rng.pick(&[511u64, 510, 256, 257, 384, 509]) as u16 + 0 },
        _ => View::Recursive { r: rng.range(1, 160) as u16 },
    };
    let rec = if let View::Recursive { r } = &view { Some(*r) } else { None };
    let limit: u64 = if matches!(view, View::Offset { .. }) { 1 << 44 } else { 1 << 52 };
    let zones = Zones { seed: rng.next() };
    let mut policies = vec![Policy::Ascending, Policy::Random, Policy::Lifo, Policy::Fifo, Policy::HugeAligned];
    if limit == 1 << 52 {
        policies.push(Policy::High);
    }
    let policy = *rng.pick(&policies);
    let alloc = AllocCfg { policy, seed: rng.next(), exhaust_after: if rng.chance(10) { Some(rng.below(8) as u32) } else { None }, frame0_first: rng.chance(20) };
    let p4_frame = {
        let z = zones.pick_table_zone(&mut rng, limit >> 30);
        (z << 30) + ((1 << 17) + rng.below(1 << 17) << 12)
    };
    let tlb = focus == "C11" || rng.chance(25);
    let pcide = rng.chance(30);
    let rnd_pcid = rng.below(4096) as u16;
    let cr3_low: u16 = if pcide { *rng.pick(&[0u16, 1, 5, 0x18, 0x7ff, 0xfff, rnd_pcid]) } else { *rng.pick(&[0u16, 0, 0x8, 0x10, 0x18]) };
    let zero_data = rng.chance(25);
    let even_garbage = rng.chance(15);
    let sparse_garbage = rng.chance(20);
    let rec_alias = rng.chance(20);
    let persist = rng.chance(50);
    let enumerate_faults = focus == "C02" || rng.chance(30);
    let enumerate_ranges = if focus == "C10" { rng.chance(50) } else { rng.chance(4) };
    let config = Config { view, alloc, garbage_seed: rng.next(), p4_frame, zone_seed: zones.seed, cr3_low, pcide, enumerate_faults, enumerate_ranges, tlb, zero_data, even_garbage, sparse_garbage, rec_alias, persist };

    let len = match rng.below(100) {
        0..=49 => rng.range(3, 12),
        50..=84 => rng.range(12, 40),
        85..=94 => rng.range(40, 120),
        _ if long => rng.range(120, 400),
        _ => rng.range(40, 120),
    } as usize;
    // a run with a kernel-half recursive index pays two signals per table access: short histories
    let len = if matches!(config.view, View::Recursive { r } if r >= 256) { len.min(3 + len % 5) } else { len };
    let mut sizes: Vec<Size> = Size::ALL.iter().cloned().filter(|_| rng.chance(75)).collect();
    if sizes.is_empty() {
        sizes.push(*rng.pick(&Size::ALL));
    }
    // op weights: map_to, map_with_flags, identity, unmap, update, setp, translate_page, translate, clean, clean_range, touch
    let mut wts: Vec<u32> = (0..12).map(|_| 1 + rng.below(10) as u32).collect();
    // foreign misaligned huge entries: a variant of 10 % of the runs
    wts[11] = if rng.chance(10) { 6 } else { 0 };
    wts[0] += 6;
    wts[1] += 6;
    wts[3] += 3;
    match focus {
        "C10" => {
            wts[8] += 6;
            wts[9] += 12;
            wts[3] += 8;
        }
        "C11" => wts[10] += 14,
        "C02" => {
            wts[0] += 4;
            wts[1] += 8;
        }
        _ => {}
    }
    if !tlb {
        wts[10] = 0;
    }
    let fail_rate = *rng.pick(&[0u64, 5, 30]);
    let flag_density = *rng.pick(&[10u64, 35, 60]);
    let pat4k = rng.chance(10);
    let pat_huge = rng.chance(8);
    let np_leaf = rng.chance(12);
    let mut g = Gen { rng: &mut rng, zones, pages: vec![], frames: vec![], sizes, rec, pat4k, pat_huge, np_leaf, fail_rate, flag_density };
    let mut steps = Vec::with_capacity(len);
    for _ in 0..len {
        let op = g.rng.weighted(&wts);
        let size = g.size();
        let st = match op {
            0 | 1 => {
                let page = g.page(size);
                let frame = g.frame(size, false);
                let flags = g.leaf_flags(size, true);
                let pflags = if op == 1 { Some(format!("{:#x}", g.map_parent_flags())) } else { None };
                let fail = g.fail();
                g.frames.push((frame, size));
                Step::Map { size, page, frame, flags, pflags, fail }
            }
            2 => {
                let frame = g.frame(size, true);
                let flags = g.leaf_flags(size, false);
                let fail = g.fail();
                g.frames.push((frame, size));
                g.pages.push((frame, size));
                Step::IdentityMap { size, frame, flags, fail }
            }
            3 => Step::Unmap { size, page: g.page(size) },
            4 => {
                let page = g.page(size);
                let flags = if g.rng.chance(4) { 0 } else { g.leaf_flags(size, true) };
                Step::UpdateFlags { size, page, flags }
            }
            5 => {
                let page = g.page(size);
                let level = g.rng.range(2, 4) as u8;
                Step::SetFlagsP { level, size, page, flags: g.parent_flags() }
            }
            6 => Step::TranslatePage { size, page: g.page(size) },
            7 => {
                let p = g.page(size);
                Step::Translate { addr: canon(p.wrapping_add(g.rng.below(size.bytes()))) }
            }
            8 => Step::CleanUp,
            9 => {
                let a = g.page(Size::K4);
                let kind = g.rng.below(100);
                let (start, end) = if kind < 8 {
                    (a, a)
                } else if kind < 14 {
                    let b = g.page(Size::K4);
                    (a.max(b).max(0x1000), a.min(b)) // start > end (or equal at page 0x1000): empty range
                } else if kind < 20 {
                    (0x0000_7fff_fff0_0000 & !0xfff, 0xffff_8000_0010_0000)
                } else if kind < 26 {
                    (a, 0xffff_ffff_ffff_f000)
                } else if kind < 60 {
                    // aligned to a table span at some level, ± one page
                    let span = *g.rng.pick(&[1u64 << 21, 1 << 30, 1 << 39]);
                    let base = a & !(span - 1);
                    let lin = base & 0x0000_ffff_ffff_ffff;
                    let s = canon(lin.wrapping_add(((g.rng.below(3) as i64 - 1) as u64).wrapping_mul(4096)));
                    let e = canon(lin.wrapping_add(span - 4096).wrapping_add(((g.rng.below(3) as i64 - 1) as u64).wrapping_mul(4096)));
                    (s & !0xfff, e & !0xfff)
                } else {
                    let b = g.page(Size::K4);
                    (a.min(b), a.max(b))
                };
                Step::CleanUpRange { start, end }
            }
            11 => {
                let sz = if g.rng.chance(50) { Size::M2 } else { Size::G1 };
                // a free slot next to something that exists (same table with some luck)
                let base = g.page(sz);
                let k = g.rng.range(1, 3) * sz.bytes();
                let lin = base & 0x0000_ffff_ffff_ffff;
                let page = canon(if g.rng.chance(50) { lin.wrapping_add(k) } else { lin.wrapping_sub(k) }) & !(sz.bytes() - 1);
                let frame = g.frame(sz, false);
                // misalign: some address bit between 13 and the size boundary
                let hi = if sz == Size::M2 { 20 } else { 29 };
                let bit = g.rng.range(13, hi);
                let raw = (frame | 1 << bit | 0x81 | (rand_flags(g.rng, 20) & !0x1000)) & 0x800f_ffff_ffff_ffff;
                Step::Poke { size: sz, page, raw }
            }
            _ => {
                let p = g.page(size);
                Step::Touch { addr: canon(p.wrapping_add(g.rng.below(size.bytes()))) }
            }
        };
        if let Some(p) = st.page() {
            if let Some(sz) = st.size() {
                if !matches!(st, Step::IdentityMap { .. }) {
                    g.pages.push((p, sz));
                }
            }
        }
        steps.push(st);
    }
    // many sibling tables under one parent (17..40 level-1 tables under one level-2 table, or
    // level-2 tables under one level-3 table), emptied again and cleaned up in one call: batching
    // and bookkeeping per parent table shows only beyond a handful of children
    let kernel_half = matches!(config.view, View::Recursive { r } if r >= 256);
    if !kernel_half && g.rng.chance(if focus == "C10" { 4 } else { 2 }) {
        let n = 17 + g.rng.below(24);
        let (stride, span) = if g.rng.chance(70) { (1u64 << 21, 1u64 << 30) } else { (1u64 << 30, 1u64 << 39) };
        let anchor = g.page(Size::K4);
        let base = anchor & !(span - 1);
        let first = g.rng.below(512 - n);
        let pages: Vec<u64> = (0..n).map(|i| base + (first + i) * stride + 4096 * g.rng.below(4)).collect();
        for &page in &pages {
            let frame = g.frame(Size::K4, false);
            let flags = g.leaf_flags(Size::K4, true);
            g.frames.push((frame, Size::K4));
            steps.push(Step::Map { size: Size::K4, page, frame, flags, pflags: None, fail: 0 });
        }
        for &page in &pages {
            steps.push(Step::Unmap { size: Size::K4, page });
        }
        steps.push(if g.rng.chance(50) { Step::CleanUp } else { Step::CleanUpRange { start: base + first * stride, end: base + (first + n) * stride - 4096 } });
    }
    Replay { property: focus.to_string(), simulator: "physim".to_string(), seed, config, steps, violation: None, minimised_from_steps: None }
}
