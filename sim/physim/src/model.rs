//! RefMmu — the executable reference model of a 4-level page-table hierarchy (DESIGN.md §3.3,
//! Appendix B).  Sorted maps only; no crate types.

use crate::steps::Size;
use std::collections::BTreeMap;

pub const P: u64 = 1;
pub const W: u64 = 2;
pub const U: u64 = 4;
pub const HUGE: u64 = 0x80;
pub const ADDR: u64 = 0x000f_ffff_ffff_f000;

#[derive(Clone, Copy, PartialEq, Eq, PartialOrd, Ord, Debug, Hash)]
pub struct Path {
    pub len: u8,
    pub idx: [u16; 4],
}

impl Path {
    pub const ROOT: Path = Path { len: 0, idx: [0; 4] };
    pub fn child(self, i: u16) -> Path {
        let mut p = self;
        p.idx[p.len as usize] = i;
        p.len += 1;
        p
    }
    pub fn parent(self) -> Path {
        self.prefix(self.len - 1)
    }
    pub fn prefix(self, n: u8) -> Path {
        let mut p = Path { len: n, idx: [0; 4] };
        for k in 0..n as usize {
            p.idx[k] = self.idx[k];
        }
        p
    }
    pub fn last(self) -> u16 {
        self.idx[self.len as usize - 1]
    }
    /// path of the entry for `va` with `len` indices
    pub fn of(va: u64, len: u8) -> Path {
        let mut p = Path { len, idx: [0; 4] };
        for k in 0..len as usize {
            p.idx[k] = ((va >> (39 - 9 * k)) & 0x1ff) as u16;
        }
        p
    }
    /// first virtual address covered by this path (sign-extended)
    pub fn va(self) -> u64 {
        let mut v = 0u64;
        for k in 0..self.len as usize {
            v |= (self.idx[k] as u64) << (39 - 9 * k);
        }
        if v & (1 << 47) != 0 {
            v |= 0xffff_0000_0000_0000;
        }
        v
    }
    /// number of bytes covered by an entry at this path
    pub fn span(self) -> u64 {
        1u64 << (48 - 9 * self.len as u32)
    }
    pub fn last_va(self) -> u64 {
        self.va().wrapping_add(self.span() - 1)
    }
    pub fn is_prefix_of(self, other: Path) -> bool {
        self.len <= other.len && other.prefix(self.len) == self
    }
    pub fn fmt(self) -> String {
        let v: Vec<String> = (0..self.len as usize).map(|k| self.idx[k].to_string()).collect();
        format!("[{}]", v.join(","))
    }
}

#[derive(Clone, Copy, Debug, PartialEq, Eq)]
pub struct Tbl {
    pub frame: u64,
    /// bounds on the flag bits (everything but the address) of the parent entry pointing to this
    /// table: lo ⊆ actual ⊆ hi.  Collapsed to the observed value after every validated step.
    pub lo: u64,
    pub hi: u64,
}

#[derive(Clone, Copy, Debug, PartialEq, Eq)]
pub struct Leaf {
    pub frame: u64,
    /// leaf flags as stored (HUGE_PAGE included for 2 MiB / 1 GiB leaves)
    pub flags: u64,
}

impl Leaf {
    /// a huge-page entry whose address is not aligned to the page size (only foreign entries)
    pub fn misaligned(&self, path_len: u8) -> bool {
        let sz: u64 = match path_len {
            2 => 1 << 30,
            3 => 1 << 21,
            _ => 1 << 12,
        };
        self.frame & (sz - 1) != 0
    }
}

#[derive(Clone, Copy, Debug, PartialEq, Eq)]
pub enum Class {
    /// entry at this path length (1..) above the leaf slot is empty
    NoPath(u8),
    Free,
    MappedExact,
    /// a huge leaf sits at this path length above the leaf slot
    InsideHuge(u8),
    HoldsTable,
}

impl Class {
    pub fn name(self) -> &'static str {
        match self {
            Class::NoPath(_) => "NoPath",
            Class::Free => "Free",
            Class::MappedExact => "MappedExact",
            Class::InsideHuge(_) => "InsideHuge",
            Class::HoldsTable => "HoldsTable",
        }
    }
}

#[derive(Clone, Debug)]
pub struct RefMmu {
    pub root: u64,
    /// recursive slot (never a table of the model, never touched by ops)
    pub rec: Option<u16>,
    pub tables: BTreeMap<Path, Tbl>,
    pub leaves: BTreeMap<Path, Leaf>,
}

#[derive(Clone, Debug, PartialEq, Eq)]
pub struct Xlate {
    pub frame: u64,
    pub size: Size,
    pub flags: u64,
}

impl RefMmu {
    pub fn new(root: u64, rec: Option<u16>) -> RefMmu {
        let mut tables = BTreeMap::new();
        tables.insert(Path::ROOT, Tbl { frame: root, lo: 0, hi: 0 });
        RefMmu { root, rec, tables, leaves: BTreeMap::new() }
    }

    pub fn class(&self, page: u64, size: Size) -> Class {
        let full = Path::of(page, size.path_len());
        for n in 1..full.len {
            let p = full.prefix(n);
            if self.leaves.contains_key(&p) {
                return Class::InsideHuge(n);
            }
            if !self.tables.contains_key(&p) {
                return Class::NoPath(n);
            }
        }
        if self.leaves.contains_key(&full) {
            Class::MappedExact
        } else if self.tables.contains_key(&full) {
            Class::HoldsTable
        } else {
            Class::Free
        }
    }

    pub fn translate(&self, va: u64) -> Option<Xlate> {
        let top = va >> 47;
        if top != 0 && top != 0x1ffff {
            return None;
        }
        for (n, size) in [(2u8, Size::G1), (3, Size::M2), (4, Size::K4)] {
            let p = Path::of(va, n);
            if let Some(l) = self.leaves.get(&p) {
                return Some(Xlate { frame: l.frame, size, flags: l.flags });
            }
            if !self.tables.contains_key(&p) {
                return None;
            }
        }
        None
    }

    /// number of parent tables missing on the path of (page, size), assuming no huge leaf is in the way
    pub fn missing_parents(&self, page: u64, size: Size) -> u32 {
        let full = Path::of(page, size.path_len());
        (1..full.len).filter(|&n| !self.tables.contains_key(&full.prefix(n))).count() as u32
    }

    pub fn table_frames(&self) -> impl Iterator<Item = u64> + '_ {
        self.tables.values().map(|t| t.frame)
    }

    pub fn path_of_frame(&self, frame: u64) -> Option<Path> {
        self.tables.iter().find(|(_, t)| t.frame == frame).map(|(p, _)| *p)
    }

    /// does the table at `path` have any child (table or leaf)?
    pub fn has_children(&self, path: Path) -> bool {
        let lo = path.child(0);
        let hi = path.child(511);
        self.tables.range(lo..=hi).next().is_some() || self.leaves.range(lo..=hi).next().is_some()
    }

    /// Clean-up per Appendix B: returns the (path, frame) of every table the *reference* frees for
    /// the inclusive 4 KiB page range [start, end] (virtual addresses), in post-order.
    pub fn clean_model(&self, start: u64, end: u64) -> Vec<(Path, u64)> {
        let mut freed = Vec::new();
        if start > end {
            return freed;
        }
        let mut removed: Vec<Path> = Vec::new();
        self.clean_rec(Path::ROOT, start, end, &mut freed, &mut removed);
        freed
    }

    fn clean_rec(&self, path: Path, start: u64, end: u64, freed: &mut Vec<(Path, u64)>, removed: &mut Vec<Path>) -> bool {
        if path.len < 3 {
            for i in 0..512u16 {
                let c = path.child(i);
                if path.len == 0 && Some(i) == self.rec {
                    continue;
                }
                let (lo, hi) = (c.va(), c.last_va());
                if hi < start || lo > end {
                    continue;
                }
                if let Some(t) = self.tables.get(&c) {
                    if self.clean_rec(c, start, end, freed, removed) {
                        freed.push((c, t.frame));
                        removed.push(c);
                    }
                }
            }
        }
        // empty now?
        let lo = path.child(0);
        let hi = path.child(511);
        let live_tables = self.tables.range(lo..=hi).filter(|(p, _)| !removed.contains(p)).count();
        let live_leaves = self.leaves.range(lo..=hi).count();
        let rec_here = path.len == 0 && self.rec.is_some();
        live_tables == 0 && live_leaves == 0 && !rec_here
    }

    /// shape hash for the "distinct states" measure: structure only (no frames, no flags)
    pub fn shape_hash(&self) -> u64 {
        let mut h = 0xcbf2_9ce4_8422_2325u64;
        let mut mixin = |v: u64| {
            h ^= v;
            h = h.wrapping_mul(0x100_0000_01b3);
        };
        for p in self.tables.keys() {
            mixin(1 + p.len as u64);
            for k in 0..p.len as usize {
                mixin(p.idx[k] as u64);
            }
        }
        for p in self.leaves.keys() {
            mixin(9 + p.len as u64);
            for k in 0..p.len as usize {
                mixin(p.idx[k] as u64);
            }
        }
        h
    }

    /// coarse shape: counts per level — used for the distinct-case measure
    pub fn coarse_shape(&self) -> (u8, u8, u8, u8, u8, u8) {
        let t = |n: u8| self.tables.keys().filter(|p| p.len == n).count().min(255) as u8;
        let l = |n: u8| self.leaves.keys().filter(|p| p.len == n).count().min(255) as u8;
        (t(1), t(2), t(3), l(2), l(3), l(4))
    }
}
