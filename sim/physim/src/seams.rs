//! Seams between the real mapper code and the simulated environment: frame allocator /
//! deallocator, frame-to-pointer mapping, and the call dispatcher that turns a `Step` into a call
//! of the crate under test and its result into an `Outcome`.

use crate::alloc::SimAlloc;
use crate::model::{Path, RefMmu};
use crate::steps::{pflags_of, Size, Step, View};
use usim::cpu::Ev;
use usim::world::{sut_call, world};
use x86_64::structures::paging::mapper::{
    CleanUp, FlagUpdateError, MapToError, MappedPageTable, Mapper, MapperFlush, MapperFlushAll, OffsetPageTable,
    PageTableFrameMapping, RecursivePageTable, Translate, TranslateError, TranslateResult, UnmapError,
};
use x86_64::structures::paging::{
    FrameAllocator, FrameDeallocator, Page, PageSize, PageTable, PageTableFlags, PhysFrame, Size1GiB, Size2MiB, Size4KiB,
};
use x86_64::{PhysAddr, VirtAddr};

#[derive(Clone, Copy, Debug, PartialEq, Eq, PartialOrd, Ord)]
pub enum Code {
    Ok,
    AlreadyMapped,
    ParentHuge,
    AllocFailed,
    NotMapped,
    InvalidFrame,
    Panic,
    /// translate(): mapped
    Mapped,
}

impl Code {
    pub fn name(self) -> &'static str {
        match self {
            Code::Ok => "Ok",
            Code::AlreadyMapped => "PageAlreadyMapped",
            Code::ParentHuge => "ParentEntryHugePage",
            Code::AllocFailed => "FrameAllocationFailed",
            Code::NotMapped => "PageNotMapped",
            Code::InvalidFrame => "InvalidFrameAddress",
            Code::Panic => "panic",
            Code::Mapped => "Mapped",
        }
    }
}

#[derive(Clone, Debug, PartialEq, Eq)]
pub struct Outcome {
    pub code: Code,
    /// frame carried by the result (unmap Ok, translate_page Ok, PageAlreadyMapped, translate)
    pub frame: Option<u64>,
    /// page named by the flush token
    pub token: Option<u64>,
    pub flush_all: bool,
    /// translate(): (size, offset, flags) ; translate_addr result
    pub xl: Option<(Size, u64, u64)>,
    pub xl_addr: Option<Option<u64>>,
    pub panic: Option<String>,
    /// instructions trapped while the token was flushed
    pub flush_trace: Vec<Ev>,
}

impl Outcome {
    fn new(code: Code) -> Outcome {
        Outcome { code, frame: None, token: None, flush_all: false, xl: None, xl_addr: None, panic: None, flush_trace: vec![] }
    }
}

/// In-call observations of the deallocator seam (C10 invariants evaluated at the instant of release).
#[derive(Clone, Debug, PartialEq, Eq)]
pub struct DeallocObs {
    pub frame: u64,
    pub path: Option<Path>,
    pub still_linked: bool,
    pub nonzero_words: u32,
    pub duplicate: bool,
    pub referenced_elsewhere: bool,
}

pub struct RunState {
    pub alloc: SimAlloc,
    pub model: RefMmu,
    pub view: View,
    pub allocated_this_call: Vec<u64>,
    pub dealloc_obs: Vec<DeallocObs>,
    pub released_this_call: Vec<u64>,
    /// frame_to_pointer log of the mapped view: (frame, allowed)
    pub ftp_log: Vec<(u64, bool)>,
    pub do_flush: bool,
    pub rec_alias: bool,
    /// one mapper object lives for the whole run (the way a kernel keeps its mapper) instead of a
    /// fresh one per call
    pub persist: bool,
}

static mut RUN: *mut RunState = core::ptr::null_mut();

pub fn set_run(r: *mut RunState) {
    unsafe { RUN = r }
}
#[allow(clippy::mut_from_ref)]
pub fn run() -> &'static mut RunState {
    unsafe { &mut *RUN }
}

pub struct AllocSeam;

unsafe impl FrameAllocator<Size4KiB> for AllocSeam {
    fn allocate_frame(&mut self) -> Option<PhysFrame<Size4KiB>> {
        let r = run();
        let w = world();
        let was = w.in_sut;
        w.in_sut = false;
        let out = r.alloc.allocate().map(|f| {
            r.allocated_this_call.push(f);
            w.allowed.insert(f);
            w.mem.commit(f);
            w.offset_expose(f);
            PhysFrame::containing_address(PhysAddr::new(f))
        });
        w.in_sut = was;
        out
    }
}

impl FrameDeallocator<Size4KiB> for AllocSeam {
    unsafe fn deallocate_frame(&mut self, frame: PhysFrame<Size4KiB>) {
        let r = run();
        let w = world();
        let was = w.in_sut;
        w.in_sut = false;
        let f = frame.start_address().as_u64();
        let path = r.model.path_of_frame(f);
        let words = w.mem.read_frame(f);
        let nonzero = words.iter().filter(|&&x| x != 0).count() as u32;
        let mut still_linked = false;
        if let Some(p) = path {
            if p.len > 0 {
                if let Some(pt) = r.model.tables.get(&p.parent()) {
                    let e = w.mem.read_u64(pt.frame + 8 * p.last() as u64);
                    still_linked = e != 0;
                }
            }
        }
        // any present entry anywhere in the hierarchy still pointing to it?
        let mut referenced = false;
        for t in r.model.tables.values() {
            if r.released_this_call.contains(&t.frame) {
                continue;
            }
            let ws = w.mem.read_frame(t.frame);
            for (i, &e) in ws.iter().enumerate() {
                if e & 1 != 0 && e & 0x000f_ffff_ffff_f000 == f {
                    // the recursive entry of the root pointing to the root is not a reference to a child
                    if !(t.frame == r.model.root && Some(i as u16) == r.model.rec && f == r.model.root) {
                        referenced = true;
                    }
                }
            }
        }
        let duplicate = r.released_this_call.contains(&f);
        r.dealloc_obs.push(DeallocObs { frame: f, path, still_linked, nonzero_words: nonzero, duplicate, referenced_elsewhere: referenced });
        r.released_this_call.push(f);
        r.alloc.deallocate(f);
        w.in_sut = was;
    }
}

pub struct SimMapping;

unsafe impl PageTableFrameMapping for SimMapping {
    fn frame_to_pointer(&self, frame: PhysFrame) -> *mut PageTable {
        let r = run();
        let w = world();
        let f = frame.start_address().as_u64();
        let ok = w.allowed.contains(&f);
        r.ftp_log.push((f, ok));
        if !ok {
            w.bad.push(usim::world::BadTouch { view: "mapped", pa: f, write: false });
        }
        w.mem.commit(f) as *mut PageTable
    }
}

fn flags(bits: u64) -> PageTableFlags {
    PageTableFlags::from_bits_retain(bits)
}

trait SizeTag: PageSize {
    const S: Size;
}
impl SizeTag for Size4KiB {
    const S: Size = Size::K4;
}
impl SizeTag for Size2MiB {
    const S: Size = Size::M2;
}
impl SizeTag for Size1GiB {
    const S: Size = Size::G1;
}

fn page_of<S: PageSize>(va: u64) -> Page<S> {
    Page::from_start_address(VirtAddr::new(va)).expect("harness: unaligned page")
}
fn frame_of<S: PageSize>(pa: u64) -> PhysFrame<S> {
    PhysFrame::from_start_address(PhysAddr::new(pa)).expect("harness: unaligned frame")
}

fn map_out<S: PageSize>(r: Result<MapperFlush<S>, MapToError<S>>, do_flush: bool) -> Outcome {
    match r {
        Ok(t) => {
            let mut o = Outcome::new(Code::Ok);
            o.token = Some(t.page().start_address().as_u64());
            if do_flush {
                let n0 = world().cpu.trace.len();
                t.flush();
                o.flush_trace = world().cpu.trace[n0..].to_vec();
            } else {
                t.ignore();
            }
            o
        }
        Err(MapToError::FrameAllocationFailed) => Outcome::new(Code::AllocFailed),
        Err(MapToError::ParentEntryHugePage) => Outcome::new(Code::ParentHuge),
        Err(MapToError::PageAlreadyMapped(f)) => {
            let mut o = Outcome::new(Code::AlreadyMapped);
            o.frame = Some(f.start_address().as_u64());
            o
        }
    }
}

fn token_out<S: PageSize>(t: MapperFlush<S>, o: &mut Outcome, do_flush: bool) {
    o.token = Some(t.page().start_address().as_u64());
    if do_flush {
        let n0 = world().cpu.trace.len();
        t.flush();
        o.flush_trace = world().cpu.trace[n0..].to_vec();
    } else {
        t.ignore();
    }
}

fn flushall_out(r: Result<MapperFlushAll, FlagUpdateError>, do_flush: bool) -> Outcome {
    match r {
        Ok(t) => {
            let mut o = Outcome::new(Code::Ok);
            o.flush_all = true;
            if do_flush {
                let n0 = world().cpu.trace.len();
                t.flush_all();
                o.flush_trace = world().cpu.trace[n0..].to_vec();
            } else {
                t.ignore();
            }
            o
        }
        Err(FlagUpdateError::PageNotMapped) => Outcome::new(Code::NotMapped),
        Err(FlagUpdateError::ParentEntryHugePage) => Outcome::new(Code::ParentHuge),
    }
}

fn sized<M, S>(m: &mut M, step: &Step, do_flush: bool) -> Outcome
where
    M: Mapper<S>,
    S: SizeTag,
{
    let mut a = AllocSeam;
    match step {
        Step::Map { page, frame, flags: fl, pflags, .. } => {
            let r = unsafe {
                match pflags_of(pflags) {
                    None => m.map_to(page_of::<S>(*page), frame_of::<S>(*frame), flags(*fl), &mut a),
                    Some(pf) => m.map_to_with_table_flags(page_of::<S>(*page), frame_of::<S>(*frame), flags(*fl), flags(pf), &mut a),
                }
            };
            map_out(r, do_flush)
        }
        Step::IdentityMap { frame, flags: fl, .. } => {
            let r = unsafe { m.identity_map(frame_of::<S>(*frame), flags(*fl), &mut a) };
            map_out(r, do_flush)
        }
        Step::Unmap { page, .. } => match m.unmap(page_of::<S>(*page)) {
            Ok((f, t)) => {
                let mut o = Outcome::new(Code::Ok);
                o.frame = Some(f.start_address().as_u64());
                token_out(t, &mut o, do_flush);
                o
            }
            Err(UnmapError::PageNotMapped) => Outcome::new(Code::NotMapped),
            Err(UnmapError::ParentEntryHugePage) => Outcome::new(Code::ParentHuge),
            Err(UnmapError::InvalidFrameAddress(a)) => {
                let mut o = Outcome::new(Code::InvalidFrame);
                o.frame = Some(a.as_u64());
                o
            }
        },
        Step::UpdateFlags { page, flags: fl, .. } => match unsafe { m.update_flags(page_of::<S>(*page), flags(*fl)) } {
            Ok(t) => {
                let mut o = Outcome::new(Code::Ok);
                token_out(t, &mut o, do_flush);
                o
            }
            Err(FlagUpdateError::PageNotMapped) => Outcome::new(Code::NotMapped),
            Err(FlagUpdateError::ParentEntryHugePage) => Outcome::new(Code::ParentHuge),
        },
        Step::SetFlagsP { level, page, flags: fl, .. } => {
            let p = page_of::<S>(*page);
            let r = unsafe {
                match level {
                    4 => m.set_flags_p4_entry(p, flags(*fl)),
                    3 => m.set_flags_p3_entry(p, flags(*fl)),
                    _ => m.set_flags_p2_entry(p, flags(*fl)),
                }
            };
            flushall_out(r, do_flush)
        }
        Step::TranslatePage { page, .. } => match m.translate_page(page_of::<S>(*page)) {
            Ok(f) => {
                let mut o = Outcome::new(Code::Ok);
                o.frame = Some(f.start_address().as_u64());
                o
            }
            Err(TranslateError::PageNotMapped) => Outcome::new(Code::NotMapped),
            Err(TranslateError::ParentEntryHugePage) => Outcome::new(Code::ParentHuge),
            Err(TranslateError::InvalidFrameAddress(a)) => {
                let mut o = Outcome::new(Code::InvalidFrame);
                o.frame = Some(a.as_u64());
                o
            }
        },
        _ => unreachable!(),
    }
}

pub fn xlate_out<M: Translate>(m: &M, addr: u64) -> Outcome {
    let va = VirtAddr::new(addr);
    let mut o = match m.translate(va) {
        TranslateResult::Mapped { frame, offset, flags } => {
            use x86_64::structures::paging::mapper::MappedFrame;
            let (sz, fa) = match frame {
                MappedFrame::Size4KiB(f) => (Size::K4, f.start_address().as_u64()),
                MappedFrame::Size2MiB(f) => (Size::M2, f.start_address().as_u64()),
                MappedFrame::Size1GiB(f) => (Size::G1, f.start_address().as_u64()),
            };
            let mut o = Outcome::new(Code::Mapped);
            o.frame = Some(fa);
            o.xl = Some((sz, offset, flags.bits()));
            o
        }
        TranslateResult::NotMapped => Outcome::new(Code::NotMapped),
        TranslateResult::InvalidFrameAddress(a) => {
            let mut o = Outcome::new(Code::InvalidFrame);
            o.frame = Some(a.as_u64());
            o
        }
    };
    o.xl_addr = Some(m.translate_addr(va).map(|p| p.as_u64()));
    o
}

fn dispatch<M>(m: &mut M, step: &Step, do_flush: bool) -> Outcome
where
    M: Mapper<Size4KiB> + Mapper<Size2MiB> + Mapper<Size1GiB> + Translate + CleanUp,
{
    match step {
        Step::Translate { addr } => xlate_out(m, *addr),
        Step::CleanUp => {
            let mut a = AllocSeam;
            unsafe { m.clean_up(&mut a) };
            Outcome::new(Code::Ok)
        }
        Step::CleanUpRange { start, end } => {
            let mut a = AllocSeam;
            let range = Page::range_inclusive(page_of::<Size4KiB>(*start), page_of::<Size4KiB>(*end));
            unsafe { m.clean_up_addr_range(range, &mut a) };
            Outcome::new(Code::Ok)
        }
        Step::Touch { .. } => unreachable!(),
        s => match s.size().unwrap() {
            Size::K4 => sized::<M, Size4KiB>(m, s, do_flush),
            Size::M2 => sized::<M, Size2MiB>(m, s, do_flush),
            Size::G1 => sized::<M, Size1GiB>(m, s, do_flush),
        },
    }
}

pub fn rec_p4_addr(r: u16) -> u64 {
    let r = r as u64;
    let a = (r << 39) | (r << 30) | (r << 21) | (r << 12);
    // sign extension for the kernel half
    if r >= 256 {
        a | 0xffff_0000_0000_0000
    } else {
        a
    }
}

/// Where the crate sees the level-4 table in the current view.
fn p4_ptr(view: &View, root: u64) -> *mut PageTable {
    match view {
        View::Offset { phys_offset } => (phys_offset + root) as *mut PageTable,
        View::Mapped => world().mem.commit(root) as *mut PageTable,
        View::Recursive { r } => rec_p4_addr(*r) as *mut PageTable,
    }
}

/// The run's long-lived mapper object (`RunState::persist`).
pub enum Persist {
    Offset(OffsetPageTable<'static>),
    Mapped(MappedPageTable<'static, SimMapping>),
    Rec(RecursivePageTable<'static>),
}
static mut PERSIST: Option<Persist> = None;

pub fn persist_reset() {
    unsafe { *(&raw mut PERSIST) = None }
}

/// Build the mapper of the run's view.  Err: the recursive constructor refused the table.
fn build(view: &View, root: u64, alias: bool) -> Result<Persist, String> {
    Ok(match view {
        View::Offset { phys_offset } => Persist::Offset(unsafe { OffsetPageTable::new(&mut *p4_ptr(view, root), VirtAddr::new(*phys_offset)) }),
        View::Mapped => Persist::Mapped(unsafe { MappedPageTable::new(&mut *p4_ptr(view, root), SimMapping) }),
        View::Recursive { r: ri } if alias => {
            // the documented contract of new_unchecked: an active level-4 table and its recursive
            // index; the reference itself is the harness's own mapping of the table
            let table = unsafe { &mut *(world().mem.commit(root) as *mut PageTable) };
            Persist::Rec(unsafe { RecursivePageTable::new_unchecked(table, x86_64::structures::paging::PageTableIndex::new(*ri)) })
        }
        View::Recursive { .. } => {
            let table = unsafe { &mut *p4_ptr(view, root) };
            match RecursivePageTable::new(table) {
                Ok(m) => Persist::Rec(m),
                Err(e) => return Err(format!("RecursivePageTable::new failed: {e:?}")),
            }
        }
    })
}

fn with_mapper<T>(persist: bool, view: &View, root: u64, alias: bool, f: impl FnOnce(&mut Persist) -> T) -> Result<T, String> {
    if persist {
        let slot = unsafe { &mut *(&raw mut PERSIST) };
        if slot.is_none() {
            *slot = Some(build(view, root, alias)?);
        }
        Ok(f(slot.as_mut().unwrap()))
    } else {
        let mut m = build(view, root, alias)?;
        Ok(f(&mut m))
    }
}

fn dispatch_on(p: &mut Persist, step: &Step, do_flush: bool) -> Outcome {
    match p {
        Persist::Offset(m) => dispatch(m, step, do_flush),
        Persist::Mapped(m) => dispatch(m, step, do_flush),
        Persist::Rec(m) => dispatch(m, step, do_flush),
    }
}

/// Execute one step against the real mapper of the run's view.  `Err` = the crate panicked.
pub fn call(step: &Step) -> Outcome {
    let r = run();
    let view = r.view.clone();
    let root = r.model.root;
    let do_flush = r.do_flush;
    let alias = r.rec_alias;
    let persist = r.persist;
    let label = step.opname();
    let res = sut_call(label, || match with_mapper(persist, &view, root, alias, |m| dispatch_on(m, step, do_flush)) {
        Ok(o) => o,
        Err(e) => {
            let mut o = Outcome::new(Code::Panic);
            o.panic = Some(e);
            o
        }
    });
    match res {
        Ok(o) => o,
        Err(msg) => {
            let mut o = Outcome::new(Code::Panic);
            o.panic = Some(msg);
            o
        }
    }
}

/// The same call through the *other* mapper implementation (a fresh `MappedPageTable` over the
/// harness's frame mapping), whatever the run's own view is.  Used where the documentation leaves
/// the error kind open: the implementations must still agree with each other.
pub fn call_twin(step: &Step) -> Outcome {
    let root = run().model.root;
    let res = sut_call("twin", || match with_mapper(false, &View::Mapped, root, false, |m| dispatch_on(m, step, false)) {
        Ok(o) => o,
        Err(e) => {
            let mut o = Outcome::new(Code::Panic);
            o.panic = Some(e);
            o
        }
    });
    match res {
        Ok(o) => o,
        Err(msg) => {
            let mut o = Outcome::new(Code::Panic);
            o.panic = Some(msg);
            o
        }
    }
}

/// Execute several read-only steps with one mapper instance (one `sut_call`).
pub fn call_many(steps: &[Step]) -> Result<Vec<Outcome>, String> {
    let r = run();
    let view = r.view.clone();
    let root = r.model.root;
    let alias = r.rec_alias;
    let persist = r.persist;
    sut_call("probe-set", || match with_mapper(persist, &view, root, alias, |m| steps.iter().map(|s| dispatch_on(m, s, false)).collect::<Vec<_>>()) {
        Ok(v) => v,
        Err(e) => panic!("{e}"),
    })
}
