//! The frame allocator / deallocator seam — the fault injector of physim (DESIGN.md §3.2).

use crate::steps::{AllocCfg, Policy};
use std::collections::{BTreeSet, VecDeque};
use usim::prng::Rng;

/// Which 1 GiB zones of physical memory hold page tables (the rest is "data" and is what map
/// calls may target).  Known to both the allocator and the step generator, so table frames and
/// mapped frames never collide (the `FrameAllocator` contract: frames are unused).
#[derive(Clone, Copy, Debug)]
pub struct Zones {
    pub seed: u64,
}

impl Zones {
    pub fn is_table_zone(&self, pa: u64) -> bool {
        usim::physmem::is_table_zone(self.seed, pa)
    }
    /// a table zone number below `limit_zones`
    pub fn pick_table_zone(&self, rng: &mut Rng, limit_zones: u64) -> u64 {
        loop {
            let z = rng.below(limit_zones);
            if self.is_table_zone(z << 30) {
                return z;
            }
        }
    }
}

#[derive(Clone, Debug, PartialEq, Eq)]
pub enum AllocEv {
    /// (ordinal within the call, result)
    Alloc(u32, Option<u64>),
    Dealloc(u64),
}

#[derive(Clone, Debug)]
pub struct SimAlloc {
    pub cfg: AllocCfg,
    pub zones: Zones,
    /// frames < limit (2^44 for the offset view, 2^52 otherwise)
    pub limit: u64,
    rng: Rng,
    cursor: u64,
    /// frames handed out and not released
    pub in_use: BTreeSet<u64>,
    pub ever: BTreeSet<u64>,
    free_list: VecDeque<u64>,
    huge_given: u32,
    pub successes: u32,
    /// per-call state
    pub ordinal: u32,
    pub fail_mask: u8,
    pub log: Vec<AllocEv>,
    /// number of injected failures that actually fired, by ordinal (1,2,3) and "all"/"exhausted"
    pub fired: [u64; 5],
    pub recycled: u64,
}

impl SimAlloc {
    pub fn new(cfg: AllocCfg, zones: Zones, limit: u64, reserved: &[u64]) -> SimAlloc {
        let mut rng = Rng::new(cfg.seed);
        let z = zones.pick_table_zone(&mut rng, limit >> 30);
        let cursor = (z << 30) + (rng.below(1 << 17) << 12);
        let mut a = SimAlloc {
            cfg,
            zones,
            limit,
            rng,
            cursor,
            in_use: BTreeSet::new(),
            ever: BTreeSet::new(),
            free_list: VecDeque::new(),
            huge_given: 0,
            successes: 0,
            ordinal: 0,
            fail_mask: 0,
            log: Vec::new(),
            fired: [0; 5],
            recycled: 0,
        };
        for &r in reserved {
            a.in_use.insert(r);
            a.ever.insert(r);
        }
        a
    }

    pub fn begin_call(&mut self, fail_mask: u8) {
        self.ordinal = 0;
        self.fail_mask = fail_mask;
        self.log.clear();
    }

    fn fresh(&mut self) -> u64 {
        if self.cfg.frame0_first && !self.ever.contains(&0) && self.zones.is_table_zone(0) {
            return 0;
        }
        loop {
            let cand = match self.cfg.policy {
                Policy::Ascending | Policy::Lifo | Policy::Fifo => {
                    let c = self.cursor;
                    self.cursor += 4096;
                    if !self.zones.is_table_zone(self.cursor) || self.cursor >= self.limit {
                        let z = self.zones.pick_table_zone(&mut self.rng, self.limit >> 30);
                        self.cursor = z << 30;
                    }
                    c
                }
                Policy::Random => {
                    let z = self.zones.pick_table_zone(&mut self.rng, self.limit >> 30);
                    (z << 30) + (self.rng.below(1 << 18) << 12)
                }
                Policy::HugeAligned => {
                    self.huge_given += 1;
                    let z = self.zones.pick_table_zone(&mut self.rng, self.limit >> 30);
                    if self.huge_given % 3 == 1 {
                        z << 30 // 1 GiB aligned (frame 0 if zone 0 is a table zone)
                    } else {
                        (z << 30) + (self.rng.below(512) << 21) // 2 MiB aligned
                    }
                }
                Policy::High => {
                    let top = self.limit >> 30;
                    let mut z = top - 1;
                    while !self.zones.is_table_zone(z << 30) {
                        z -= 1;
                    }
                    (z << 30) + ((0x3ffff - self.rng.below(1 << 10)) << 12)
                }
            };
            if cand < self.limit && self.zones.is_table_zone(cand) && !self.in_use.contains(&cand) {
                return cand;
            }
        }
    }

    pub fn allocate(&mut self) -> Option<u64> {
        self.ordinal += 1;
        let k = self.ordinal;
        let inj = if self.fail_mask & 0x80 != 0 {
            Some(3)
        } else if k <= 3 && self.fail_mask & (1 << (k - 1)) != 0 {
            Some(k as usize - 1)
        } else if self.cfg.exhaust_after.map_or(false, |n| self.successes >= n) {
            Some(4)
        } else {
            None
        };
        if let Some(slot) = inj {
            self.fired[slot] += 1;
            self.log.push(AllocEv::Alloc(k, None));
            return None;
        }
        let f = match self.cfg.policy {
            Policy::Lifo if !self.free_list.is_empty() => {
                self.recycled += 1;
                self.free_list.pop_back().unwrap()
            }
            Policy::Fifo if !self.free_list.is_empty() => {
                self.recycled += 1;
                self.free_list.pop_front().unwrap()
            }
            _ => self.fresh(),
        };
        self.in_use.insert(f);
        self.ever.insert(f);
        self.successes += 1;
        self.log.push(AllocEv::Alloc(k, Some(f)));
        Some(f)
    }

    pub fn deallocate(&mut self, frame: u64) {
        self.log.push(AllocEv::Dealloc(frame));
        if self.in_use.remove(&frame) {
            self.free_list.push_back(frame);
        }
    }
}
