//! Executes a run (config + steps) against the real mappers and evaluates every oracle after
//! every step.  One `Violation` ends the run.

use crate::alloc::{AllocEv, SimAlloc, Zones};
use crate::model::{Class, Path, RefMmu, ADDR, P, W};
use crate::seams::{call, call_many, call_twin, set_run, Code, DeallocObs, Outcome, RunState};
use crate::spec::{spec, Spec};
use crate::steps::{Config, Replay, Size, Step, View, Violation};
use std::collections::{BTreeMap, BTreeSet};
use usim::cpu::{Cpu, Ev, CR4_PCIDE};
use usim::hwwalk;
use usim::world::world;

#[derive(Default, Clone, Debug)]
pub struct Stats {
    pub runs: u64,
    pub steps: u64,
    /// calls into the crate under test (one evaluation = one call executed under one failure mask,
    /// or one probe translation batch)
    pub calls: u64,
    pub probe_translations: u64,
    /// packed (op, size, class, outcome, mask/released, view, bucketed per-level table and leaf counts)
    pub distinct: BTreeSet<u64>,
    pub probes: BTreeMap<String, u64>,
    pub cells: BTreeMap<String, u64>,
    pub fired: [u64; 5],
    pub recycled: u64,
    /// runs repeated in a process with pristine process-wide state
    pub fresh_runs: u64,
    /// runs with a kernel-half recursive index (executed in a forked child) / given up
    pub kernel_half_runs: u64,
    pub kernel_half_unsupported: u64,
    pub views: BTreeMap<String, u64>,
    pub filtered: u64,
    pub mmu_faults: u64,
    pub trapped: u64,
    pub deallocs: u64,
    pub cleanup_model_agree: u64,
    pub cleanup_model_differ: u64,
    pub enum_masks: u64,
    pub enum_ranges: u64,
    pub tlb_fills: u64,
    pub tlb_checks: u64,
    /// translate_page probe cells: [size][class][code]
    pub tp_cells: [[[u64; 8]; 5]; 3],
    /// rolling hash of the full event log (outcomes, allocator events, resolved MMU faults, trapped
    /// instructions with operands): two executions of the same seed must agree on it
    pub evhash: u64,
}

impl Stats {
    pub fn fold(&mut self, x: u64) {
        self.evhash = (self.evhash ^ x).wrapping_mul(0x100_0000_01b3).rotate_left(23) ^ 0x9E37_79B9;
    }
    pub fn probe(&mut self, name: &str) {
        *self.probes.entry(name.to_string()).or_insert(0) += 1;
    }
    pub fn merge(&mut self, o: &Stats) {
        self.runs += o.runs;
        self.steps += o.steps;
        self.calls += o.calls;
        self.probe_translations += o.probe_translations;
        self.distinct.extend(o.distinct.iter().cloned());
        for (k, v) in &o.probes {
            *self.probes.entry(k.clone()).or_insert(0) += v;
        }
        for (k, v) in &o.cells {
            *self.cells.entry(k.clone()).or_insert(0) += v;
        }
        for i in 0..5 {
            self.fired[i] += o.fired[i];
        }
        self.recycled += o.recycled;
        for (k, v) in &o.views {
            *self.views.entry(k.clone()).or_insert(0) += v;
        }
        self.filtered += o.filtered;
        self.mmu_faults += o.mmu_faults;
        self.trapped += o.trapped;
        self.deallocs += o.deallocs;
        self.cleanup_model_agree += o.cleanup_model_agree;
        self.cleanup_model_differ += o.cleanup_model_differ;
        self.enum_masks += o.enum_masks;
        self.enum_ranges += o.enum_ranges;
        self.tlb_fills += o.tlb_fills;
        self.tlb_checks += o.tlb_checks;
        for a in 0..3 {
            for b in 0..5 {
                for c in 0..8 {
                    self.tp_cells[a][b][c] += o.tp_cells[a][b][c];
                }
            }
        }
    }
}

struct Snap {
    mem: Vec<(u64, Box<[u64; 512]>)>,
    model: RefMmu,
    alloc: SimAlloc,
    allowed: BTreeSet<u64>,
    exposed: BTreeSet<u64>,
    cpu: Cpu,
}

pub struct Exec<'a> {
    pub cfg: Config,
    rs: Box<RunState>,
    probes: Vec<u64>,
    pub stats: &'a mut Stats,
    scribble_salt: u64,
    enum_range_steps: u32,
}

fn class_ix(c: Class) -> usize {
    match c {
        Class::NoPath(_) => 0,
        Class::Free => 1,
        Class::MappedExact => 2,
        Class::InsideHuge(_) => 3,
        Class::HoldsTable => 4,
    }
}

fn viol(props: &[&str], oracle: &str, step: usize, detail: String) -> Violation {
    Violation { properties: props.iter().map(|s| s.to_string()).collect(), oracle: oracle.to_string(), step, detail }
}

fn mirror(va: u64) -> u64 {
    let v = (va ^ (1 << 47)) & 0x0000_ffff_ffff_ffff;
    if v & (1 << 47) != 0 {
        v | 0xffff_0000_0000_0000
    } else {
        v
    }
}

const BOUNDARY: [u64; 4] = [0, 0x0000_7fff_ffff_ffff, 0xffff_8000_0000_0000, 0xffff_ffff_ffff_ffff];

impl<'a> Exec<'a> {
    pub fn new(cfg: &Config, stats: &'a mut Stats) -> Exec<'a> {
        let w = world();
        w.mem.reset(cfg.garbage_seed);
        w.mem.zero_data = if cfg.zero_data { Some(cfg.zone_seed) } else { None };
        w.mem.even_garbage = cfg.even_garbage;
        w.mem.sparse_garbage = cfg.sparse_garbage;
        w.cpu = Cpu::default();
        w.cpu.cr3 = cfg.p4_frame | cfg.cr3_low as u64;
        if cfg.pcide {
            w.cpu.cr4 |= CR4_PCIDE;
        }
        w.allowed.clear();
        w.rec_drop_aliases();
        w.rec_slot = None;
        w.offset_close();
        let (limit, rec) = match &cfg.view {
            View::Offset { phys_offset } => {
                if !w.offset_open(*phys_offset, 1 << 44) {
                    eprintln!("HARNESS-ERROR: offset window {phys_offset:#x} collides with a host mapping");
                    std::process::exit(2);
                }
                (1u64 << 44, None)
            }
            View::Mapped => (1u64 << 52, None),
            View::Recursive { r } => {
                w.rec_slot = Some(*r);
                (1u64 << 52, Some(*r))
            }
        };
        let root = cfg.p4_frame;
        w.mem.zero_frame(root);
        if let Some(r) = rec {
            w.mem.write_u64(root + 8 * r as u64, root | P | W);
        }
        w.allowed.insert(root);
        w.offset_expose(root);
        let zones = Zones { seed: cfg.zone_seed };
        let alloc = SimAlloc::new(cfg.alloc.clone(), zones, limit, &[root]);
        let rs = Box::new(RunState {
            alloc,
            model: RefMmu::new(root, rec),
            view: cfg.view.clone(),
            allocated_this_call: vec![],
            dealloc_obs: vec![],
            released_this_call: vec![],
            ftp_log: vec![],
            do_flush: cfg.tlb,
            rec_alias: cfg.rec_alias && matches!(cfg.view, View::Recursive { .. }),
            persist: cfg.persist,
        });
        crate::seams::persist_reset();
        let mut e = Exec { cfg: cfg.clone(), rs, probes: BOUNDARY.to_vec(), stats, scribble_salt: 1, enum_range_steps: 0 };
        // (addresses under the recursive slot translate through the tables themselves)
        let rec = e.rs.model.rec;
        e.probes.retain(|va| rec.map_or(true, |r| (va >> 39) & 0x1ff != r as u64));
        set_run(&mut *e.rs as *mut RunState);
        *e.stats.views.entry(cfg.view.name().to_string()).or_insert(0) += 1;
        // environment variants of the run (reported with the views)
        let mem_kind = if cfg.sparse_garbage {
            "memory:sparse_garbage"
        } else if cfg.even_garbage {
            "memory:garbage_without_present_bit"
        } else {
            "memory:live_looking_garbage"
        };
        let mut env: Vec<&str> = vec![mem_kind];
        if cfg.zero_data {
            env.push("memory:zero_data_frames");
        }
        if cfg.persist {
            env.push("mapper:one_object_per_run");
        } else {
            env.push("mapper:fresh_object_per_call");
        }
        if cfg.rec_alias && matches!(cfg.view, View::Recursive { .. }) {
            env.push("mapper:recursive_through_alias");
        }
        if cfg.tlb {
            env.push("tlb_model_on");
        }
        if cfg.pcide {
            env.push("cr4_pcide");
        }
        for k in env {
            *e.stats.views.entry(k.to_string()).or_insert(0) += 1;
        }
        e.stats.runs += 1;
        e
    }

    pub fn finish(self) {
        let w = world();
        self.stats.fired.iter_mut().zip(self.rs.alloc.fired.iter()).for_each(|(a, b)| *a += b);
        self.stats.recycled += self.rs.alloc.recycled;
        w.offset_close();
        w.rec_drop_aliases();
        w.rec_slot = None;
        set_run(core::ptr::null_mut());
    }

    fn view_name(&self) -> &'static str {
        match self.cfg.view {
            View::Offset { .. } => "OffsetPageTable",
            View::Mapped => "MappedPageTable",
            View::Recursive { .. } => "RecursivePageTable",
        }
    }

    fn in_rec_slot(&self, va: u64) -> bool {
        match self.rs.model.rec {
            Some(r) => (va >> 39) & 0x1ff == r as u64,
            None => false,
        }
    }

    fn add_probes(&mut self, step: &Step) {
        let (page, sz) = match (step.page(), step.size()) {
            (Some(p), Some(s)) => (p, s.bytes()),
            (Some(p), None) => (p & !0xfff, 4096),
            _ => return,
        };
        let cands = [
            page,
            page.wrapping_add(sz - 1),
            page.wrapping_add(sz / 2 + 0x123),
            page.wrapping_sub(1),
            page.wrapping_add(sz),
            mirror(page),
        ];
        for c in cands {
            if !hwwalk::is_canonical(c) || self.in_rec_slot(c) || self.probes.contains(&c) {
                continue;
            }
            self.probes.push(c);
        }
        let cap = match self.cfg.view {
            View::Recursive { r } if r >= 256 => 8,
            View::Recursive { .. } => 36,
            _ => 96,
        };
        while self.probes.len() > cap {
            self.probes.remove(4);
        }
    }

    fn snap(&self) -> Snap {
        let w = world();
        Snap {
            mem: w.mem.snapshot(),
            model: self.rs.model.clone(),
            alloc: self.rs.alloc.clone(),
            allowed: w.allowed.clone(),
            exposed: w.offset_exposed.clone(),
            cpu: w.cpu.clone(),
        }
    }

    fn rollback(&mut self, s: &Snap) {
        let w = world();
        let in_snap: BTreeSet<u64> = s.mem.iter().map(|(f, _)| *f).collect();
        for (f, words) in &s.mem {
            w.mem.write_frame(*f, words);
        }
        let now: Vec<u64> = w.mem.committed_frames().collect();
        for f in now {
            if !in_snap.contains(&f) {
                // back to what uncommitted memory reads as
                let mut g = [0u64; 512];
                for (i, x) in g.iter_mut().enumerate() {
                    *x = w.mem.fill_word(f >> 12, i);
                }
                w.mem.write_frame(f, &g);
            }
        }
        let exposed: Vec<u64> = w.offset_exposed.iter().cloned().collect();
        for f in exposed {
            if !s.exposed.contains(&f) {
                w.offset_hide(f);
            }
        }
        for f in &s.exposed {
            w.offset_expose(*f);
        }
        w.allowed = s.allowed.clone();
        w.cpu = s.cpu.clone();
        w.rec_drop_aliases();
        self.rs.model = s.model.clone();
        // counters of what fired are measurements, not simulation state: they survive the rollback
        let (fired, recycled) = (self.rs.alloc.fired, self.rs.alloc.recycled);
        self.rs.alloc = s.alloc.clone();
        self.rs.alloc.fired = fired;
        self.rs.alloc.recycled = recycled;
    }

    /// Committed frames that are not page tables of the model (normally none): kept for the byte diff.
    fn nontable_snapshot(&self) -> Vec<(u64, Box<[u64; 512]>)> {
        let w = world();
        let tables: BTreeSet<u64> = self.rs.model.table_frames().collect();
        w.mem.committed_frames().filter(|f| !tables.contains(f)).map(|f| (f, Box::new(w.mem.read_frame(f)))).collect()
    }

    /// Compare all table memory with the model image; on success collapse the flag bounds.
    /// `pre_mem` holds the pre-call contents of the committed frames that were not tables.
    fn image_check(&self, after: &mut RefMmu, pre_mem: &[(u64, Box<[u64; 512]>)], released: &[u64]) -> Result<(), (bool, String)> {
        let w = world();
        let mut updates: Vec<(Path, u64)> = Vec::new();
        for (path, t) in after.tables.iter() {
            let words = w.mem.read_frame(t.frame);
            // expected image of this table: 0 = must be zero, otherwise exact value or table pointer
            let mut exact = [0u64; 512];
            let mut is_tbl = [false; 512];
            if path.len < 4 {
                let (lo, hi) = (path.child(0), path.child(511));
                for (c, l) in after.leaves.range(lo..=hi) {
                    exact[c.last() as usize] = l.frame | l.flags;
                }
                for (c, _) in after.tables.range(lo..=hi) {
                    is_tbl[c.last() as usize] = true;
                }
            }
            if path.len == 0 {
                if let Some(r) = after.rec {
                    exact[r as usize] = after.root | P | W;
                }
            }
            for i in 0..512usize {
                let e = words[i];
                if is_tbl[i] {
                    let c = path.child(i as u16);
                    let ct = &after.tables[&c];
                    let fl = e & !ADDR;
                    if e & ADDR != ct.frame {
                        return Err((true, format!("table entry {}: expected frame {:#x}, memory holds {:#x}", c.fmt(), ct.frame, e)));
                    }
                    if ct.lo & !fl != 0 || fl & !ct.hi != 0 {
                        return Err((
                            true,
                            format!("table entry {}: flags {:#x} outside the allowed bounds [{:#x}, {:#x}] (entry {:#x})", c.fmt(), fl, ct.lo, ct.hi, e),
                        ));
                    }
                    if ct.lo != fl || ct.hi != fl {
                        updates.push((c, fl));
                    }
                } else if e != exact[i] {
                    let c = path.child(i as u16);
                    if exact[i] != 0 && !(path.len == 0 && Some(i as u16) == after.rec) {
                        return Err((true, format!("leaf entry {}: expected {:#x}, memory holds {:#x}", c.fmt(), exact[i], e)));
                    }
                    return Err((true, format!("entry {} should be {:#x} (no mapping there) but memory holds {:#x}", c.fmt(), exact[i], e)));
                }
            }
        }
        // everything that is not a table must be byte-identical to what it was
        if w.mem.committed_count() != after.tables.len() {
            let tables: BTreeSet<u64> = after.table_frames().collect();
            let pre: BTreeMap<u64, &Box<[u64; 512]>> = pre_mem.iter().map(|(f, b)| (*f, b)).collect();
            let committed: Vec<u64> = w.mem.committed_frames().collect();
            for f in committed {
                if tables.contains(&f) || released.contains(&f) {
                    continue;
                }
                let now = w.mem.read_frame(f);
                for i in 0..512 {
                    let was = match pre.get(&f) {
                        Some(b) => b[i],
                        None => w.mem.fill_word(f >> 12, i),
                    };
                    if now[i] != was {
                        return Err((false, format!("physical frame {:#x} is not a page table of the hierarchy but word {} changed {:#x} -> {:#x}", f, i, was, now[i])));
                    }
                }
            }
        }
        for (c, fl) in updates {
            let t = after.tables.get_mut(&c).unwrap();
            t.lo = fl;
            t.hi = fl;
        }
        Ok(())
    }

    fn check_accesses(&mut self, i: usize, step: &Step, pre: &RefMmu) -> Result<(), Violation> {
        let w = world();
        self.stats.mmu_faults += w.mmu_log.len() as u64;
        self.stats.trapped += w.cpu.trace.len() as u64;
        if let Some(b) = w.bad.first() {
            return Err(viol(
                &["C09"],
                "touched-non-table-memory",
                i,
                format!("{} accessed physical frame {:#x} ({}) through the {} view; it is neither a page table of the hierarchy nor a frame handed out during this call", step.opname(), b.pa, if b.write { "write" } else { "read" }, b.view),
            ));
        }
        if let Some(r) = pre.rec {
            let mut visited: BTreeSet<Path> = BTreeSet::new();
            for f in &w.mmu_log {
                if f.pa.is_none() {
                    return Err(viol(&["C20", "C01", "C09"], "recursive-access-not-present", i, format!("{} dereferenced {:#x}, which the MMU resolves to not-present", step.opname(), f.va)));
                }
                let idx = [(f.va >> 39) & 0x1ff, (f.va >> 30) & 0x1ff, (f.va >> 21) & 0x1ff, (f.va >> 12) & 0x1ff];
                let mut k = 0;
                while k < 4 && idx[k] == r as u64 {
                    k += 1;
                }
                let mut p = Path::ROOT;
                for &x in &idx[k..] {
                    p = p.child(x as u16);
                }
                let ok = match step {
                    Step::CleanUp | Step::CleanUpRange { .. } => pre.tables.contains_key(&p),
                    s => match s.page() {
                        Some(pg) => {
                            let full = Path::of(pg, 4);
                            let maxlen = s.size().map(|z| z.path_len() - 1).unwrap_or(3);
                            p.is_prefix_of(full) && p.len <= maxlen
                        }
                        None => true,
                    },
                };
                visited.insert(p);
                if !ok {
                    return Err(viol(
                        &["C20"],
                        "recursive-address",
                        i,
                        format!("{} dereferenced recursive address {:#x} = table path {} which is not a table on the path of its page (recursive index {})", step.opname(), f.va, p.fmt(), r),
                    ));
                }
            }
            // clean-up reaches every table that overlaps the range through that table's own
            // recursive address (aliases were dropped before the call, so every table page the call
            // touches appears in the fault log exactly once)
            if let Some((start, end)) = match step {
                Step::CleanUp => Some((0u64, 0xffff_ffff_ffff_f000u64)),
                Step::CleanUpRange { start, end } => Some((*start, *end)),
                _ => None,
            } {
                let end_last = end | 0xfff;
                // `allowed`: tables that overlap the range (nothing else may be dereferenced);
                // `required`: tables that lie wholly inside it (their emptiness has to be established by
                // looking at them). A table that merely sticks into the range may be left alone: the
                // property permits freeing it when empty and demands it only for tables wholly inside.
                let mut allowed: BTreeSet<Path> = BTreeSet::new();
                let mut required: BTreeSet<Path> = BTreeSet::new();
                allowed.insert(Path::ROOT);
                if !self.rs.rec_alias {
                    // (with a non-recursive alias the level-4 table itself is reached directly)
                    required.insert(Path::ROOT);
                }
                if start <= end {
                    for p in pre.tables.keys() {
                        if p.len > 0 && !(p.last_va() < start || p.va() > end_last) {
                            allowed.insert(*p);
                            if p.va() >= start && p.last_va() <= end_last {
                                required.insert(*p);
                            }
                        }
                    }
                }
                // an empty range, or a range that lies wholly under the recursive slot (which clean-up
                // never enters): whether the level-4 table is looked at at all is immaterial (the
                // constructor of a fresh mapper does, a long-lived mapper need not)
                let only_rec_slot = start <= end && (start >> 39) & 0x1ff == r as u64 && (end >> 39) & 0x1ff == r as u64 && (end - start) >> 39 == 0;
                if start > end || only_rec_slot {
                    required.remove(&Path::ROOT);
                }
                if self.rs.rec_alias {
                    visited.remove(&Path::ROOT);
                    allowed.remove(&Path::ROOT);
                }
                let missing: Vec<String> = required.difference(&visited).map(|p| p.fmt()).collect();
                let extra: Vec<String> = visited.difference(&allowed).map(|p| p.fmt()).collect();
                if !missing.is_empty() || !extra.is_empty() {
                    return Err(viol(
                        &["C20", "C10"],
                        "recursive-address-set",
                        i,
                        format!("{} [{start:#x}, {end:#x}] with recursive index {r}: tables wholly inside the range that were never dereferenced through their recursive address: {missing:?}; dereferenced but not overlapping: {extra:?}", step.opname()),
                    ));
                }
            }
        }
        Ok(())
    }

    fn check_flush(&mut self, i: usize, step: &Step, s: &Spec, out: &Outcome, cr3_before: u64) -> Result<(), Violation> {
        if !self.rs.do_flush || out.code != Code::Ok {
            return Ok(());
        }
        if let Some(tok) = out.token {
            if out.flush_trace != vec![Ev::Invlpg { addr: tok }] {
                return Err(viol(&["C11"], "flush-trace", i, format!("{}: flushing the token for page {:#x} executed {:?}, expected exactly one invlpg of {:#x}", step.opname(), tok, out.flush_trace, tok)));
            }
            let _ = s;
        }
        if out.flush_all {
            // one write of the value the register holds, preceded by a read; further reads (a
            // read-back, say) are the implementation's business, anything else is not
            let writes: Vec<u64> = out.flush_trace.iter().filter_map(|e| if let Ev::WriteCr { cr: 3, val } = e { Some(*val) } else { None }).collect();
            let only_cr3 = out.flush_trace.iter().all(|e| matches!(e, Ev::ReadCr { cr: 3, .. } | Ev::WriteCr { cr: 3, .. }));
            let read_first = matches!(out.flush_trace.first(), Some(Ev::ReadCr { cr: 3, .. }));
            if !only_cr3 || !read_first || writes != [cr3_before] {
                return Err(viol(&["C11"], "flush-all-trace", i, format!("{}: flush_all executed {:x?}, expected a reload of CR3 with its current value {:#x}", step.opname(), out.flush_trace, cr3_before)));
            }
        }
        Ok(())
    }

    fn tlb_check(&mut self, i: usize, step: &Step) -> Result<(), Violation> {
        if !self.cfg.tlb {
            return Ok(());
        }
        let w = world();
        let root = w.cpu.root();
        self.stats.tlb_checks += 1;
        for (&(pcid, va), e) in w.cpu.tlb.map.iter() {
            let fresh = hwwalk::walk(&w.mem, root, va);
            let ok = match fresh {
                Some(f) => f.frame == e.frame && f.size == e.size && f.leaf_flags == e.leaf_flags,
                None => false,
            };
            if !ok {
                return Err(viol(
                    &["C11"],
                    "tlb-stale",
                    i,
                    format!("after {} and the flush of its token the TLB (pcid {}) still maps {:#x} -> frame {:#x} {:?} flags {:#x}, a fresh walk gives {:?}", step.opname(), pcid, va, e.frame, e.size, e.leaf_flags, fresh.map(|f| (f.frame, f.size, f.leaf_flags))),
                ));
            }
        }
        Ok(())
    }

    fn record_cell(&mut self, step: &Step, s: &Spec, out: &Outcome, mask: u8) {
        let key = format!("{}/{}/{}/{}", step.opname(), step.size().map(|z| z.name()).unwrap_or("-"), s.class.name(), out.code.name());
        *self.stats.cells.entry(key).or_insert(0) += 1;
        let op = match step {
            Step::Map { pflags: None, .. } => 0,
            Step::Map { .. } => 1,
            Step::IdentityMap { .. } => 2,
            Step::Unmap { .. } => 3,
            Step::UpdateFlags { .. } => 4,
            Step::SetFlagsP { level, .. } => 5 + *level,
            Step::TranslatePage { .. } => 10,
            Step::Translate { .. } => 11,
            Step::CleanUp => 12,
            Step::CleanUpRange { .. } => 13,
            Step::Touch { .. } => 14,
            Step::Poke { .. } => 15,
        };
        let cls = match s.class {
            Class::NoPath(n) => n,
            Class::Free => 4,
            Class::MappedExact => 5,
            Class::InsideHuge(n) => 5 + n,
            Class::HoldsTable => 9,
        };
        let view = match self.cfg.view {
            View::Offset { .. } => 0,
            View::Mapped => 1,
            View::Recursive { .. } => 2,
        };
        let sz = step.size().map(|z| z as u8).unwrap_or(3);
        let sh = self.rs.model.coarse_shape();
        let b = |x: u8| x.min(3) as u64;
        let shape = b(sh.0) | b(sh.1) << 2 | b(sh.2) << 4 | b(sh.3) << 6 | b(sh.4) << 8 | b(sh.5) << 10;
        let key = (op as u64) << 40 | (sz as u64) << 36 | (cls as u64) << 32 | (out.code as u64) << 28 | (mask.min(15) as u64) << 24 | (view as u64) << 20 | shape;
        self.stats.distinct.insert(key);
    }

    fn fold_events(&mut self, out: &Outcome, log: &[AllocEv]) {
        let w = world();
        let st = &mut *self.stats;
        st.fold(out.code as u64);
        st.fold(out.frame.unwrap_or(1));
        st.fold(out.token.unwrap_or(2));
        for e in log {
            match e {
                AllocEv::Alloc(k, f) => st.fold(*k as u64 ^ f.unwrap_or(3)),
                AllocEv::Dealloc(f) => st.fold(!*f),
            }
        }
        for f in &w.mmu_log {
            st.fold(f.va);
            st.fold(f.pa.unwrap_or(4));
        }
        for e in w.cpu.trace.iter().chain(out.flush_trace.iter()) {
            match e {
                Ev::ReadCr { cr, val } | Ev::WriteCr { cr, val } => st.fold(*cr as u64 ^ *val),
                Ev::Invlpg { addr } => st.fold(*addr),
                _ => st.fold(7),
            }
        }
        for (f, ok) in &self.rs.ftp_log {
            st.fold(*f ^ *ok as u64);
        }
    }

    /// One call of the crate under one allocator-failure mask, with all oracles.
    fn attempt(&mut self, i: usize, step: &Step, mask: u8) -> Result<(), Violation> {
        let w = world();
        let pre = self.rs.model.clone();
        let pre_mem = self.nontable_snapshot();
        let cr3_before = w.cpu.cr3;
        // update_flags with the EMPTY flag set is only issued where the page is not mapped exactly (the
        // outcome is then defined by the state alone); on a mapped page it would leave an entry
        // that may read as unused, about which the documentation says nothing
        if let Step::UpdateFlags { size, page, flags: 0 } = step {
            if pre.class(*page, *size) == crate::model::Class::MappedExact {
                self.stats.filtered += 1;
                return Ok(());
            }
        }
        // SetFlagsP misuse filter (result undefined by the docs)
        if let Step::SetFlagsP { .. } = step {
            if spec(&pre, step, &[]).map(|s| s.filtered).unwrap_or(false) {
                self.stats.filtered += 1;
                return Ok(());
            }
        }
        self.rs.alloc.begin_call(mask);
        self.rs.allocated_this_call.clear();
        self.rs.dealloc_obs.clear();
        self.rs.released_this_call.clear();
        self.rs.ftp_log.clear();
        w.allowed = pre.table_frames().collect();
        w.rec_drop_aliases();
        let out = call(step);
        self.stats.calls += 1;
        let w = world();
        let log = self.rs.alloc.log.clone();
        let name = step.opname();
        self.fold_events(&out, &log);

        // identity_map of a frame whose address is not a valid (canonical) virtual address: the
        // documentation defines no outcome; refusing by panic is accepted, success is not (there
        // is no page with that address), and nothing may have been touched
        if let Step::IdentityMap { frame, .. } = step {
            if *frame >> 47 != 0 {
                if out.panic.is_none() && out.code == Code::Ok {
                    return Err(viol(&["C01"], "identity-map-page", i, format!("identity_map of frame {frame:#x}, whose address is not a canonical virtual address, reported success (flush token for page {:x?})", out.token)));
                }
                let mut same = pre.clone();
                if let Err((_, m)) = self.image_check(&mut same, &pre_mem, &[]) {
                    return Err(viol(&["C02", "C09"], "failed-call-changed-memory", i, format!("identity_map of the non-canonical frame {frame:#x} was refused but changed memory: {m}")));
                }
                self.stats.probe("identity_map_of_non_canonical_frame_refused");
                return Ok(());
            }
        }
        if let Some(msg) = &out.panic {
            let mut props = vec!["C01", "C02"];
            if matches!(step, Step::CleanUp | Step::CleanUpRange { .. }) {
                props.insert(0, "C10");
            }
            if msg.contains("RecursivePageTable::new failed") {
                props.insert(0, "C20");
            }
            return Err(viol(&props, "panic", i, format!("{name} panicked: {msg}")));
        }
        // an access violation is usually not the only consequence: evaluate the remaining oracles
        // too and report every property the behaviour contradicts
        let acc = self.check_accesses(i, step, &pre);
        let rest = self.attempt_rest(i, step, mask, &out, pre, &pre_mem, &log, cr3_before);
        match (acc, rest) {
            (Ok(()), r) => r,
            (Err(a), Ok(())) => Err(a),
            (Err(mut a), Err(b)) => {
                for p in &b.properties {
                    if !a.properties.contains(p) {
                        a.properties.push(p.clone());
                    }
                }
                a.detail = format!("{}; consequence ({}): {}", a.detail, b.oracle, b.detail);
                Err(a)
            }
        }
    }

    #[allow(clippy::too_many_arguments)]
    fn attempt_rest(&mut self, i: usize, step: &Step, mask: u8, out: &Outcome, pre: RefMmu, pre_mem: &[(u64, Box<[u64; 512]>)], log: &[AllocEv], cr3_before: u64) -> Result<(), Violation> {
        let w = world();
        let name = step.opname();
        let is_map = matches!(step, Step::Map { .. } | Step::IdentityMap { .. });
        let is_clean = matches!(step, Step::CleanUp | Step::CleanUpRange { .. });
        let n_alloc = log.iter().filter(|e| matches!(e, AllocEv::Alloc(..))).count() as u32;
        let n_dealloc = log.iter().filter(|e| matches!(e, AllocEv::Dealloc(_))).count() as u32;
        if !is_map && n_alloc > 0 {
            return Err(viol(&["C09"], "alloc-outside-map", i, format!("{name} requested {n_alloc} frame(s) from the allocator")));
        }
        if !is_clean && n_dealloc > 0 {
            return Err(viol(&["C09", "C10"], "release-outside-cleanup", i, format!("{name} released {n_dealloc} frame(s)")));
        }
        if is_clean {
            return self.check_cleanup(i, step, &pre, pre_mem);
        }

        let mut s = match spec(&pre, step, log) {
            Ok(s) => s,
            Err(msg) => return Err(viol(&["C09", "C02"], "alloc-count", i, format!("{name}: {msg}"))),
        };
        if n_alloc != s.exp_allocs {
            // stopping at the first failure and allocating only what is missing
            let after_none = log.iter().position(|e| matches!(e, AllocEv::Alloc(_, None))).map(|p| p + 1 < log.len()).unwrap_or(false);
            let props: &[&str] = if after_none { &["C02", "C09"] } else { &["C09", "C02"] };
            return Err(viol(props, "alloc-count", i, format!("{name}: {n_alloc} allocation request(s), the path of the page lacks {} table(s) before the first failure (state {})", s.exp_allocs, s.class.name())));
        }

        // outcome class
        let mut code_ok = if s.any_err { out.code != Code::Ok && out.code != Code::Mapped } else { s.accept.contains(&out.code) };
        if !code_ok {
            if let Some((c, after)) = s.alt.take() {
                if out.code == c {
                    // the other documented reading of a non-present entry: nothing changes
                    code_ok = true;
                    s.after = after;
                    s.exp_frame = None;
                    s.exp_token = None;
                    self.stats.probe("np_leaf_alt_outcome");
                }
            }
        }
        if !code_ok {
            let exp = if s.any_err { "any error".to_string() } else { s.accept.iter().map(|c| c.name()).collect::<Vec<_>>().join("|") };
            let mut props = vec!["C02"];
            if out.code == Code::Ok || s.accept.contains(&Code::Ok) {
                props.push("C01");
            }
            return Err(viol(&props, "outcome", i, format!("{name} on a page in state {} returned {} (frame {:x?}), documentation defines {}", s.class.name(), out.code.name(), out.frame, exp)));
        }
        if out.code == Code::Ok || out.code == Code::AlreadyMapped {
            if let Some(f) = s.exp_frame {
                if out.frame != Some(f) {
                    return Err(viol(&["C01", "C02"], "result-frame", i, format!("{name} returned frame {:x?}, expected {:#x}", out.frame, f)));
                }
            }
        }
        if out.code == Code::Ok {
            if let Some(t) = s.exp_token {
                if out.token != Some(t) {
                    return Err(viol(&["C11", "C01"], "flush-token-page", i, format!("{name} of page {:#x} returned a flush token for page {:x?}", t, out.token)));
                }
            }
            if matches!(step, Step::SetFlagsP { .. }) && !out.flush_all {
                return Err(viol(&["C11"], "flush-token-kind", i, format!("{name} did not return a flush-all token")));
            }
        }
        self.check_flush(i, step, &s, out, cr3_before)?;

        // where the documentation leaves the error kind open the implementations must still agree:
        // the same (failing, side-effect free) call through the other mapper implementation
        if s.any_err && out.code != Code::Ok && matches!(step, Step::Unmap { .. } | Step::UpdateFlags { .. } | Step::TranslatePage { .. }) && !matches!(self.cfg.view, View::Mapped) {
            let twin = call_twin(step);
            self.stats.calls += 1;
            self.stats.probe("same_call_through_the_other_implementation");
            if let Some(msg) = &twin.panic {
                return Err(viol(&["C02"], "panic", i, format!("{name} through MappedPageTable panicked: {msg}")));
            }
            if twin.code != out.code {
                return Err(viol(&["C02"], "outcome-across-implementations", i, format!("{name} on a page in state {} returned {} through the run's mapper ({}) and {} through MappedPageTable", s.class.name(), out.code.name(), self.view_name(), twin.code.name())));
            }
        }
        // memory image
        let failed = out.code != Code::Ok;
        if let Err((is_table, msg)) = self.image_check(&mut s.after, pre_mem, &[]) {
            let mut props: Vec<&str> = vec![];
            if failed {
                props.push("C02");
            }
            if !step.is_mutating() {
                props.push("C09");
            }
            // a changed leaf entry (or an entry that appeared where nothing is mapped) changes what
            // addresses translate to, whatever the call returned
            if !failed || (is_table && (msg.starts_with("leaf entry") || msg.starts_with("entry "))) {
                props.push("C01");
            }
            if !is_table {
                props.insert(0, "C09");
            } else if !props.contains(&"C09") {
                props.push("C09");
            }
            let oracle = if failed { "failed-call-changed-memory" } else { "memory-image" };
            return Err(viol(&props, oracle, i, format!("{name} -> {}: {msg}", out.code.name())));
        }
        // effective rights include the requested parent flags
        if let (Step::Map { page, flags, pflags, .. }, Code::Ok) = (step, out.code) {
            if flags & 1 != 0 {
            let pf = crate::steps::pflags_of(pflags).unwrap_or(flags & 7);
            if let Some(wk) = hwwalk::walk(&w.mem, pre.root, *page) {
                if (pf & flags & 2 != 0 && !wk.eff_w) || (pf & flags & 4 != 0 && !wk.eff_u) {
                    return Err(viol(&["C01"], "effective-rights", i, format!("{name}: requested parent flags {pf:#x} but the walk of {page:#x} gives w={} u={}", wk.eff_w, wk.eff_u)));
                }
            }
            }
        }
        self.record_cell(step, &s, out, mask);
        // probes for rare conditions
        if is_map {
            match out.code {
                Code::Ok if s.exp_allocs == 0 => self.stats.probe("map_ok_alloc0"),
                Code::AllocFailed => self.stats.probe(&format!("alloc_failed_at_{}", s.exp_allocs)),
                Code::ParentHuge => self.stats.probe("map_inside_huge"),
                _ => {}
            }
            if let Some(pg) = step.page() {
                if pg >> 47 != 0 {
                    self.stats.probe("upper_half_map");
                }
            }
        }
        if matches!(s.class, Class::HoldsTable) {
            self.stats.probe("op_on_slot_holding_table");
        }
        if matches!(s.class, Class::InsideHuge(_)) {
            self.stats.probe("op_inside_huge");
        }
        self.rs.model = s.after;
        w.allowed = self.rs.model.table_frames().collect();
        Ok(())
    }

    fn check_cleanup(&mut self, i: usize, step: &Step, pre: &RefMmu, pre_mem: &[(u64, Box<[u64; 512]>)]) -> Result<(), Violation> {
        let w = world();
        let name = step.opname();
        let (start, end) = match step {
            Step::CleanUpRange { start, end } => (*start, *end),
            _ => (0u64, 0xffff_ffff_ffff_f000u64),
        };
        let end_last = end | 0xfff;
        let obs: Vec<DeallocObs> = self.rs.dealloc_obs.clone();
        self.stats.deallocs += obs.len() as u64;
        let mut after = pre.clone();
        for o in &obs {
            let p = match o.path {
                Some(p) if p.len >= 1 && p.len <= 3 => p,
                Some(_) => return Err(viol(&["C10"], "cleanup-freed-root", i, format!("{name} released the level-4 table frame {:#x}", o.frame))),
                None => return Err(viol(&["C10", "C09"], "cleanup-freed-non-table", i, format!("{name} released frame {:#x}, which is not a level-1..3 table of the hierarchy (huge/data frame, unknown frame, or released twice)", o.frame))),
            };
            if o.duplicate {
                return Err(viol(&["C10"], "cleanup-double-free", i, format!("{name} released frame {:#x} twice", o.frame)));
            }
            if start > end || p.last_va() < start || p.va() > end_last {
                // (a released table that still holds entries also changes what addresses translate to)
                let props: &[&str] = if o.nonzero_words != 0 || after.has_children(p) { &["C10", "C01"] } else { &["C10"] };
                return Err(viol(props, "cleanup-freed-outside-range", i, format!("{name} [{start:#x}, {end:#x}] released table {} (frame {:#x}) which does not overlap the range", p.fmt(), o.frame)));
            }
            if o.nonzero_words != 0 || after.has_children(p) {
                return Err(viol(&["C10", "C01"], "cleanup-freed-non-empty", i, format!("{name} released table {} (frame {:#x}) while it still held {} entr(ies)", p.fmt(), o.frame, o.nonzero_words)));
            }
            if o.still_linked || o.referenced_elsewhere {
                return Err(viol(&["C10"], "cleanup-freed-before-unlink", i, format!("{name} released table {} (frame {:#x}) while a parent entry still pointed to it", p.fmt(), o.frame)));
            }
            match step {
                Step::CleanUp | Step::CleanUpRange { .. } => {}
                _ => unreachable!(),
            }
            after.tables.remove(&p);
            match p.len {
                1 => self.stats.probe("freed_p3"),
                2 => self.stats.probe("freed_p2"),
                _ => self.stats.probe("freed_p1"),
            }
        }
        if obs.len() >= 3 {
            self.stats.probe("cleanup_cascade_3plus");
        }
        // nothing empty may be left wholly inside the range
        if start <= end {
            for (p, t) in after.tables.iter() {
                if p.len == 0 {
                    continue;
                }
                if p.va() >= start && p.last_va() <= end_last && !after.has_children(*p) {
                    return Err(viol(&["C10"], "cleanup-left-empty-table", i, format!("{name} [{start:#x}, {end:#x}] left the empty table {} (frame {:#x}) linked although it lies wholly inside the range", p.fmt(), t.frame)));
                }
            }
        }
        let released: Vec<u64> = obs.iter().map(|o| o.frame).collect();
        if let Err((_, msg)) = self.image_check(&mut after, pre_mem, &released) {
            return Err(viol(&["C10", "C01", "C09"], "cleanup-memory-image", i, format!("{name}: {msg}")));
        }
        // reference-model comparison (statistics only: the statement leaves partially overlapping empty tables open)
        let mut m: Vec<u64> = pre.clean_model(start, end_last).iter().map(|x| x.1).collect();
        let mut a = released.clone();
        m.sort();
        a.sort();
        if m == a {
            self.stats.cleanup_model_agree += 1;
        } else {
            self.stats.cleanup_model_differ += 1;
        }
        let dummy = Spec { accept: vec![], any_err: false, after: after.clone(), exp_allocs: 0, exp_frame: None, exp_token: None, class: Class::Free, filtered: false, path: vec![], alt: None };
        self.record_cell(step, &dummy, &Outcome { code: Code::Ok, frame: None, token: None, flush_all: false, xl: None, xl_addr: None, panic: None, flush_trace: vec![] }, obs.len().min(255) as u8);
        // released frames go back to the environment: someone else scribbles on them
        for f in &released {
            self.scribble_salt += 1;
            w.mem.scribble(*f, self.scribble_salt);
            w.offset_hide(*f);
        }
        self.rs.model = after;
        w.allowed = self.rs.model.table_frames().collect();
        // repeating the clean-up must release nothing
        let pre2 = self.rs.model.clone();
        let pre_mem2 = self.nontable_snapshot();
        self.rs.alloc.begin_call(0);
        self.rs.dealloc_obs.clear();
        self.rs.released_this_call.clear();
        w.rec_drop_aliases();
        let out2 = call(step);
        self.stats.calls += 1;
        if let Some(msg) = out2.panic {
            return Err(viol(&["C10"], "panic", i, format!("repeated {name} panicked: {msg}")));
        }
        self.check_accesses(i, step, &pre2)?;
        if !self.rs.dealloc_obs.is_empty() {
            return Err(viol(&["C10"], "cleanup-repeat-frees", i, format!("repeating {name} released {} more frame(s), first {:#x}", self.rs.dealloc_obs.len(), self.rs.dealloc_obs[0].frame)));
        }
        let mut again = pre2.clone();
        if let Err((_, msg)) = self.image_check(&mut again, &pre_mem2, &[]) {
            return Err(viol(&["C10", "C09"], "cleanup-repeat-memory", i, format!("repeated {name}: {msg}")));
        }
        Ok(())
    }

    /// C01: model == raw walk == crate, for every probe address and the three page sizes.
    fn probe_check(&mut self, i: usize) -> Result<(), Violation> {
        let w = world();
        let root = self.rs.model.root;
        let mut steps: Vec<Step> = Vec::with_capacity(self.probes.len() * 4);
        for &va in &self.probes {
            steps.push(Step::Translate { addr: va });
            for sz in Size::ALL {
                steps.push(Step::TranslatePage { size: sz, page: va & !(sz.bytes() - 1) });
            }
        }
        self.rs.alloc.begin_call(0);
        self.rs.dealloc_obs.clear();
        w.allowed = self.rs.model.table_frames().collect();
        let pre_mem = self.nontable_snapshot();
        let outs = match call_many(&steps) {
            Ok(o) => o,
            Err(msg) => return Err(viol(&["C01"], "panic", i, format!("translate/translate_page panicked on the probe set: {msg}"))),
        };
        self.stats.calls += 1;
        self.stats.probe_translations += steps.len() as u64;
        let w = world();
        if let Some(b) = w.bad.first() {
            return Err(viol(&["C09", "C01"], "touched-non-table-memory", i, format!("a translation of the probe set accessed physical frame {:#x} through the {} view, which is not a page table of the hierarchy", b.pa, b.view)));
        }
        if let Some(f) = w.mmu_log.iter().find(|f| f.pa.is_none()) {
            return Err(viol(&["C20", "C01"], "recursive-access-not-present", i, format!("a translation dereferenced {:#x}, which the MMU resolves to not-present", f.va)));
        }
        if !self.rs.alloc.log.is_empty() {
            return Err(viol(&["C09"], "alloc-outside-map", i, "a translation called the frame allocator".to_string()));
        }
        let mut twins = 0;
        for (k, &va) in self.probes.clone().iter().enumerate() {
            let m = self.rs.model.translate(va);
            let h = hwwalk::walk(&w.mem, root, va);
            let o = &outs[4 * k];
            // model vs independent raw walk
            let hm = h.map(|x| (x.frame, x.size.bytes(), x.leaf_flags));
            let np = m.as_ref().map_or(false, |x| x.flags & 1 == 0);
            if m.as_ref().map_or(false, |x| x.frame & (x.size.bytes() - 1) != 0) {
                // inside a foreign huge-page entry with a misaligned address: what translate reports
                // and what hardware does with it (reserved-bit fault) is outside the documentation;
                // translate_page below must still report InvalidFrameAddress
                if o.code == Code::Panic {
                    return Err(viol(&["C01"], "panic", i, format!("translate({va:#x}) panicked")));
                }
            } else {
            // a leaf without the PRESENT bit is not a translation for the hardware
            let mm = if np { None } else { m.as_ref().map(|x| (x.frame, x.size.bytes(), x.flags)) };
            if hm != mm {
                return Err(viol(&["C01"], "walk-vs-history", i, format!("address {va:#x}: the history of successful calls dictates {mm:x?} (frame, size, flags); a hardware walk of the raw tables gives {hm:x?}")));
            }
            match &m {
                // the documentation does not say whether translate reports a non-present entry
                Some(_) if np && o.code == Code::NotMapped && o.xl_addr == Some(None) => {}
                None => {
                    if o.code != Code::NotMapped || o.xl_addr != Some(None) {
                        return Err(viol(&["C01"], "translate", i, format!("address {va:#x} is not mapped but translate returned {} / translate_addr {:x?}", o.code.name(), o.xl_addr)));
                    }
                }
                Some(x) => {
                    let off = va & (x.size.bytes() - 1);
                    let exp = Some((x.size, off, x.flags));
                    if o.code != Code::Mapped || o.frame != Some(x.frame) || o.xl != exp || o.xl_addr != Some(Some(x.frame + off)) {
                        return Err(viol(
                            &["C01"],
                            "translate",
                            i,
                            format!("address {va:#x} maps to frame {:#x} size {} offset {:#x} flags {:#x}; translate returned {} frame {:x?} (size, offset, flags) {:x?}, translate_addr {:x?}", x.frame, x.size.name(), off, x.flags, o.code.name(), o.frame, o.xl, o.xl_addr),
                        ));
                    }
                }
            }
            }
            for (j, sz) in Size::ALL.iter().enumerate() {
                let st = &steps[4 * k + 1 + j];
                let (class, any_err, acc, exp_frame) = crate::spec::translate_page_expect(&self.rs.model, st.page().unwrap(), *sz);
                let o = &outs[4 * k + 1 + j];
                let np_leaf = acc == Code::Ok && crate::spec::leaf_not_present(&self.rs.model, st.page().unwrap(), *sz);
                let ok = if any_err { o.code != Code::Ok } else { (o.code == acc && (o.code != Code::Ok || o.frame == exp_frame)) || (np_leaf && o.code == Code::NotMapped) };
                if ok && any_err && twins < 2 && !matches!(self.cfg.view, View::Mapped) {
                    twins += 1;
                    let twin = call_twin(st);
                    self.stats.calls += 1;
                    self.stats.probe("same_call_through_the_other_implementation");
                    if twin.code != o.code {
                        return Err(viol(&["C02"], "outcome-across-implementations", i, format!("translate_page::<{}>({:#x}) in state {} returned {} through the run's mapper ({}) and {} through MappedPageTable", sz.name(), st.page().unwrap(), class.name(), o.code.name(), self.view_name(), twin.code.name())));
                    }
                }
                if !ok {
                    let mut props = vec!["C02"];
                    if o.code == Code::Ok || acc == Code::Ok {
                        props.insert(0, "C01");
                    }
                    return Err(viol(
                        &props,
                        "translate_page",
                        i,
                        format!("translate_page::<{}>({:#x}) in state {} returned {} {:x?}; documentation defines {}", sz.name(), st.page().unwrap(), class.name(), o.code.name(), o.frame, if any_err { "an error".to_string() } else { format!("{} {:x?}", acc.name(), exp_frame) }),
                    ));
                }
                self.stats.tp_cells[j][class_ix(class)][o.code as usize] += 1;
            }
        }
        let mut same = self.rs.model.clone();
        if let Err((_, msg)) = self.image_check(&mut same, &pre_mem, &[]) {
            return Err(viol(&["C09", "C01"], "translation-changed-memory", i, format!("translate/translate_page modified memory: {msg}")));
        }
        Ok(())
    }

    pub fn step(&mut self, i: usize, step: &Step) -> Result<(), Violation> {
        self.stats.steps += 1;
        if let Step::Touch { addr } = step {
            if self.cfg.tlb && !self.in_rec_slot(*addr) {
                let w = world();
                w.cpu.touch(&w.mem, *addr);
                self.stats.tlb_fills += 1;
            }
            return Ok(());
        }
        if let Some(pg) = step.page() {
            if self.in_rec_slot(pg) {
                self.stats.filtered += 1;
                return Ok(());
            }
        }
        self.add_probes(step);
        if let Step::Poke { size, page, raw } = step {
            let full = Path::of(*page, size.path_len());
            if *size == Size::K4 || self.rs.model.class(*page, *size) != Class::Free {
                self.stats.filtered += 1;
                return Ok(());
            }
            let parent = self.rs.model.tables[&full.parent()].frame;
            world().mem.write_u64(parent + 8 * full.last() as u64, *raw);
            self.rs.model.leaves.insert(full, crate::model::Leaf { frame: *raw & ADDR & !0x1000, flags: *raw & (!ADDR | 0x1000) });
            self.stats.probe("foreign_misaligned_huge_entry");
            return self.probe_check(i);
        }
        if let Step::Translate { addr } = step {
            // decided by the probe machinery: the exact address joins the probe set
            if !self.probes.contains(addr) {
                self.probes.push(*addr);
            }
            return self.probe_check(i);
        }
        let own_mask = match step {
            Step::Map { fail, .. } | Step::IdentityMap { fail, .. } => *fail,
            _ => 0,
        };
        if self.cfg.enumerate_faults && matches!(step, Step::Map { .. } | Step::IdentityMap { .. }) {
            let k = match (step.page(), step.size()) {
                (Some(pg), Some(sz)) => self.rs.model.missing_parents(pg, sz),
                _ => 0,
            };
            let mut masks: Vec<u8> = vec![0];
            for j in 0..k {
                masks.push(1 << j);
            }
            if k > 0 {
                masks.push(0x80);
            }
            for m in masks {
                if m == own_mask {
                    continue;
                }
                let s = self.snap();
                let r = self.attempt(i, step, m);
                self.stats.enum_masks += 1;
                if let Err(mut v) = r {
                    v.detail = format!("[allocator-failure mask {m:#x}] {}", v.detail);
                    return Err(v);
                }
                if let Err(mut v) = self.probe_check(i) {
                    v.detail = format!("[after allocator-failure mask {m:#x}] {}", v.detail);
                    return Err(v);
                }
                self.rollback(&s);
            }
        }
        if self.cfg.enumerate_ranges && self.enum_range_steps < 2 && matches!(step, Step::CleanUp | Step::CleanUpRange { .. }) {
            self.enum_range_steps += 1;
            let all = self.range_candidates();
            // bounded: at most 24 candidates per step, spread over the whole candidate list
            let stride = (all.len() + 23) / 24;
            let off = i % stride.max(1);
            for cand in all.into_iter().skip(off).step_by(stride.max(1)) {
                let s = self.snap();
                self.stats.enum_ranges += 1;
                let st = Step::CleanUpRange { start: cand.0, end: cand.1 };
                if let Err(mut v) = self.attempt(i, &st, 0).and_then(|_| self.probe_check(i)) {
                    v.detail = format!("[enumerated range {:#x}..={:#x}] {}", cand.0, cand.1, v.detail);
                    return Err(v);
                }
                self.rollback(&s);
            }
        }
        self.attempt(i, step, own_mask)?;
        if step.is_mutating() {
            world().rec_drop_aliases();
            self.tlb_check(i, step)?;
        }
        self.probe_check(i)
    }

    /// Clean-up ranges derived from the current hierarchy (DESIGN.md §3.6).
    fn range_candidates(&self) -> Vec<(u64, u64)> {
        let mut out: Vec<(u64, u64)> = Vec::new();
        let page = |v: u64| v & !0xfff;
        let step_va = |v: u64, d: i64| -> Option<u64> {
            // move by d pages in the contiguous canonical sequence
            let lin = if v >> 47 != 0 { v & 0x0000_ffff_ffff_ffff } else { v };
            let n = lin as i128 + (d as i128) * 4096;
            if n < 0 || n >= (1i128 << 48) {
                return None;
            }
            let n = n as u64;
            Some(if n & (1 << 47) != 0 { n | 0xffff_0000_0000_0000 } else { n })
        };
        let tables: Vec<Path> = self.rs.model.tables.keys().filter(|p| p.len > 0).cloned().collect();
        let stride = (tables.len() / 10).max(1);
        for p in tables.iter().step_by(stride) {
            let (a, b) = (page(p.va()), page(p.last_va()));
            for da in [-1i64, 0, 1] {
                for db in [-1i64, 0, 1] {
                    if let (Some(x), Some(y)) = (step_va(a, da), step_va(b, db)) {
                        out.push((x, y));
                    }
                }
            }
            out.push((a, a));
            out.push((b, b));
            out.push((b, a)); // empty (start > end) unless the table spans one page
        }
        out.push((0x0000_7fff_ffff_f000, 0xffff_8000_0000_0000)); // across the gap
        out.push((0, 0xffff_ffff_ffff_f000));
        out.push((0xffff_ffff_ffff_f000, 0xffff_ffff_ffff_f000));
        out.push((0xffff_8000_0000_0000, 0xffff_ffff_ffff_f000));
        out.push((0, 0x0000_7fff_ffff_f000));
        out.sort();
        out.dedup();
        out
    }
}

/// Execute a replay description from scratch.  Returns the violation, if any.
pub fn run_replay(rp: &Replay, stats: &mut Stats) -> Option<Violation> {
    let mut e = Exec::new(&rp.config, stats);
    let mut res = None;
    for (i, st) in rp.steps.iter().enumerate() {
        if let Err(v) = e.step(i, st) {
            res = Some(v);
            break;
        }
    }
    e.finish();
    res
}
