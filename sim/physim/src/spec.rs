//! What the documentation says a call must do in the state the model is in (DESIGN.md §3.3).

use crate::alloc::AllocEv;
use crate::model::{Class, Leaf, Path, RefMmu, Tbl, HUGE, P, W};
use crate::seams::Code;
use crate::steps::{pflags_of, Size, Step};

#[derive(Clone, Debug)]
pub struct Spec {
    /// acceptable outcome codes; empty + never_ok = "any error"
    pub accept: Vec<Code>,
    pub any_err: bool,
    pub after: RefMmu,
    /// expected number of allocate_frame calls (None: not a map call → must be 0)
    pub exp_allocs: u32,
    pub exp_frame: Option<u64>,
    pub exp_token: Option<u64>,
    pub class: Class,
    /// API misuse whose result the docs do not define: the step is skipped
    pub filtered: bool,
    /// table entries (paths) this call is allowed to write
    pub path: Vec<Path>,
    /// second acceptable outcome with its own after-state: used where the documentation does not
    /// say whether a non-zero entry WITHOUT the PRESENT bit counts as "mapped"
    pub alt: Option<(Code, RefMmu)>,
}

fn base(pre: &RefMmu, class: Class) -> Spec {
    Spec { accept: vec![], any_err: false, after: pre.clone(), exp_allocs: 0, exp_frame: None, exp_token: None, class, filtered: false, path: vec![], alt: None }
}

fn map_spec(pre: &RefMmu, size: Size, page: u64, frame: u64, flags: u64, pf: u64, log: &[AllocEv]) -> Result<Spec, String> {
    let class = pre.class(page, size);
    let mut s = base(pre, class);
    let full = Path::of(page, size.path_len());
    let allocs: Vec<Option<u64>> = log.iter().filter_map(|e| if let AllocEv::Alloc(_, r) = e { Some(*r) } else { None }).collect();
    let mut k = 0usize;
    // existing parent entries on the path: a successful call adds the requested parent flags
    // (documented); a failing call MAY have added them ("at most the requested parent flags may be
    // added to existing parent-table entries") - the lower bound then stays what it was
    let mut raised: Vec<(Path, u64)> = Vec::new();
    fn failed(s: &mut Spec, raised: &[(Path, u64)]) {
        for (p, lo) in raised {
            if let Some(t) = s.after.tables.get_mut(p) {
                t.lo = *lo;
            }
        }
    }
    for n in 1..full.len {
        let p = full.prefix(n);
        s.path.push(p);
        if s.after.leaves.contains_key(&p) {
            s.accept = vec![Code::ParentHuge];
            s.exp_allocs = k as u32;
            failed(&mut s, &raised);
            return Ok(s);
        }
        if let Some(t) = s.after.tables.get_mut(&p) {
            raised.push((p, t.lo));
            t.lo |= pf;
            t.hi |= pf;
        } else {
            match allocs.get(k) {
                None => return Err(format!("a table is missing at {} but the call made only {} allocation request(s)", p.fmt(), allocs.len())),
                Some(None) => {
                    k += 1;
                    s.accept = vec![Code::AllocFailed];
                    s.exp_allocs = k as u32;
                    failed(&mut s, &raised);
                    return Ok(s);
                }
                Some(Some(f)) => {
                    k += 1;
                    s.after.tables.insert(p, Tbl { frame: *f, lo: pf | P, hi: pf | P | W });
                }
            }
        }
    }
    s.exp_allocs = k as u32;
    s.path.push(full);
    if s.after.leaves.contains_key(&full) {
        s.accept = vec![Code::AlreadyMapped];
        s.exp_frame = Some(frame);
        failed(&mut s, &raised);
    } else if s.after.tables.contains_key(&full) {
        s.any_err = true;
        failed(&mut s, &raised);
    } else {
        s.accept = vec![Code::Ok];
        s.exp_token = Some(page);
        let fl = if size == Size::K4 { flags } else { flags | HUGE };
        s.after.leaves.insert(full, Leaf { frame, flags: fl });
    }
    Ok(s)
}

/// `log` = the allocator events of the call (frames are the environment's choice, their number is
/// the crate's).  Err = the allocation log cannot be explained at all.
pub fn spec(pre: &RefMmu, step: &Step, log: &[AllocEv]) -> Result<Spec, String> {
    match step {
        Step::Map { size, page, frame, flags, pflags, .. } => {
            let pf = pflags_of(pflags).unwrap_or(flags & 7);
            map_spec(pre, *size, *page, *frame, *flags, pf, log)
        }
        Step::IdentityMap { size, frame, flags, .. } => map_spec(pre, *size, *frame, *frame, *flags, flags & 7, log),
        Step::Unmap { size, page } => {
            let class = pre.class(*page, *size);
            let mut s = base(pre, class);
            let full = Path::of(*page, size.path_len());
            s.path.push(full);
            match class {
                Class::NoPath(_) | Class::Free => s.accept = vec![Code::NotMapped],
                Class::InsideHuge(_) => s.accept = vec![Code::ParentHuge],
                Class::HoldsTable => s.any_err = true,
                Class::MappedExact if pre.leaves[&full].misaligned(full.len) => {
                    // documented: the entry points to an invalid physical address; nothing changes
                    s.accept = vec![Code::InvalidFrame];
                    if pre.leaves[&full].flags & P == 0 {
                        s.alt = Some((Code::NotMapped, pre.clone()));
                    }
                }
                Class::MappedExact => {
                    s.accept = vec![Code::Ok];
                    s.exp_frame = Some(pre.leaves[&full].frame);
                    s.exp_token = Some(*page);
                    if pre.leaves[&full].flags & P == 0 {
                        s.alt = Some((Code::NotMapped, pre.clone()));
                    }
                    s.after.leaves.remove(&full);
                }
            }
            Ok(s)
        }
        Step::UpdateFlags { size, page, flags } => {
            let class = pre.class(*page, *size);
            let mut s = base(pre, class);
            let full = Path::of(*page, size.path_len());
            s.path.push(full);
            match class {
                Class::NoPath(_) | Class::Free => s.accept = vec![Code::NotMapped],
                Class::InsideHuge(_) => s.accept = vec![Code::ParentHuge],
                Class::HoldsTable => s.any_err = true,
                Class::MappedExact => {
                    s.accept = vec![Code::Ok];
                    s.exp_token = Some(*page);
                    let fl = if *size == Size::K4 { *flags } else { *flags | HUGE };
                    if pre.leaves[&full].flags & P == 0 {
                        s.alt = Some((Code::NotMapped, pre.clone()));
                    }
                    s.after.leaves.get_mut(&full).unwrap().flags = fl;
                }
            }
            Ok(s)
        }
        Step::TranslatePage { size, page } => {
            let class = pre.class(*page, *size);
            let mut s = base(pre, class);
            let full = Path::of(*page, size.path_len());
            match class {
                Class::NoPath(_) | Class::Free => s.accept = vec![Code::NotMapped],
                Class::InsideHuge(_) => s.accept = vec![Code::ParentHuge],
                Class::HoldsTable => s.any_err = true,
                Class::MappedExact if pre.leaves[&full].misaligned(full.len) => {
                    s.accept = vec![Code::InvalidFrame];
                    if pre.leaves[&full].flags & P == 0 {
                        s.alt = Some((Code::NotMapped, pre.clone()));
                    }
                }
                Class::MappedExact => {
                    s.accept = vec![Code::Ok];
                    s.exp_frame = Some(pre.leaves[&full].frame);
                    if pre.leaves[&full].flags & P == 0 {
                        s.alt = Some((Code::NotMapped, pre.clone()));
                    }
                }
            }
            Ok(s)
        }
        Step::SetFlagsP { level, size, page, flags } => {
            let class = pre.class(*page, *size);
            let mut s = base(pre, class);
            let leaf_level = 5 - size.path_len(); // 4K → 1, 2M → 2, 1G → 3
            if *level <= leaf_level {
                s.accept = vec![Code::ParentHuge];
                return Ok(s);
            }
            let tlen = 5 - *level; // path length of the level-N entry
            let full = Path::of(*page, tlen);
            for n in 1..tlen {
                let p = full.prefix(n);
                if pre.leaves.contains_key(&p) {
                    s.accept = vec![Code::ParentHuge];
                    return Ok(s);
                }
                if !pre.tables.contains_key(&p) {
                    s.accept = vec![Code::NotMapped];
                    return Ok(s);
                }
            }
            if pre.leaves.contains_key(&full) {
                s.filtered = true;
                return Ok(s);
            }
            s.path.push(full);
            match s.after.tables.get_mut(&full) {
                Some(t) => {
                    t.lo = *flags;
                    t.hi = *flags;
                    s.accept = vec![Code::Ok];
                }
                None => s.accept = vec![Code::NotMapped],
            }
            Ok(s)
        }
        Step::Translate { .. } | Step::Touch { .. } | Step::Poke { .. } | Step::CleanUp | Step::CleanUpRange { .. } => Ok(base(pre, Class::Free)),
    }
}

/// translate_page without cloning the model: (class, any_err, accepted code, expected frame)
/// is the leaf of (page, size) a non-present (but non-zero) entry?
pub fn leaf_not_present(m: &RefMmu, page: u64, size: Size) -> bool {
    m.leaves.get(&Path::of(page, size.path_len())).map_or(false, |l| l.flags & P == 0)
}

pub fn translate_page_expect(m: &RefMmu, page: u64, size: Size) -> (Class, bool, Code, Option<u64>) {
    let class = m.class(page, size);
    match class {
        Class::NoPath(_) | Class::Free => (class, false, Code::NotMapped, None),
        Class::InsideHuge(_) => (class, false, Code::ParentHuge, None),
        Class::HoldsTable => (class, true, Code::NotMapped, None),
        Class::MappedExact if m.leaves[&Path::of(page, size.path_len())].misaligned(size.path_len()) => (class, false, Code::InvalidFrame, None),
        Class::MappedExact => (class, false, Code::Ok, Some(m.leaves[&Path::of(page, size.path_len())].frame)),
    }
}
