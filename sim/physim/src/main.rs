fn main(){}
