//! physim — deterministic simulation of the environment of the page-table mappers
//! (physical memory, frame allocator with fault injection, MMU walker, TLB).
//! Decides C01 C02 C09 C10 C11(a,b) C20(b).  See /verif/DESIGN.md §3.

mod alloc;
mod exec;
mod gen;
mod model;
mod seams;
mod spec;
mod steps;

use exec::{run_replay, Stats};
use serde_json::json;
use std::io::{Read, Write};
use steps::{Replay, Step, Violation};

fn arg<'a>(args: &'a [String], name: &str) -> Option<&'a str> {
    args.iter().position(|a| a == name).and_then(|i| args.get(i + 1)).map(|s| s.as_str())
}

fn run_seed(base: u64, i: u64) -> u64 {
    base.wrapping_mul(1_000_003).wrapping_add(i)
}

static UNSUPPORTED: std::sync::atomic::AtomicBool = std::sync::atomic::AtomicBool::new(false);

fn kernel_half(rp: &Replay) -> bool {
    matches!(rp.config.view, steps::View::Recursive { r } if r >= 256)
}

#[derive(Debug, Clone, PartialEq, Eq)]
enum Verdict {
    Pass,
    Viol(Violation),
    Crash(String),
}

/// Execute a replay in a forked child so that a wild access of a broken system under test cannot
/// take the minimiser down.
fn run_isolated(rp: &Replay) -> Verdict {
    unsafe {
        let mut fds = [0i32; 2];
        if libc::pipe(fds.as_mut_ptr()) != 0 {
            eprintln!("HARNESS-ERROR: pipe");
            std::process::exit(2);
        }
        let pid = libc::fork();
        if pid < 0 {
            eprintln!("HARNESS-ERROR: fork");
            std::process::exit(2);
        }
        if pid == 0 {
            libc::close(fds[0]);
            // the child's stderr carries FATAL-FAULT lines; route them into the pipe too
            libc::dup2(fds[1], 2);
            let mut st = Stats::default();
            let v = run_replay(rp, &mut st);
            let s = match v {
                None => "PASS\n".to_string(),
                Some(v) => format!("VIOL {}\n", serde_json::to_string(&v).unwrap()),
            };
            libc::write(fds[1], s.as_ptr() as *const libc::c_void, s.len());
            libc::_exit(0);
        }
        libc::close(fds[1]);
        let mut f = <std::fs::File as std::os::fd::FromRawFd>::from_raw_fd(fds[0]);
        let mut out = String::new();
        let _ = f.read_to_string(&mut out);
        let mut status = 0i32;
        libc::waitpid(pid, &mut status, 0);
        let exited_ok = libc::WIFEXITED(status) && libc::WEXITSTATUS(status) == 0;
        for line in out.lines() {
            if exited_ok && line == "PASS" {
                return Verdict::Pass;
            }
            if exited_ok {
                if let Some(j) = line.strip_prefix("VIOL ") {
                    if let Ok(v) = serde_json::from_str::<Violation>(j) {
                        return Verdict::Viol(v);
                    }
                }
            }
        }
        let code = if libc::WIFEXITED(status) { libc::WEXITSTATUS(status) } else { 128 + libc::WTERMSIG(status) };
        if code == 4 {
            // an instruction the redirect machinery (kernel-half recursive index) does not
            // understand: the run cannot be simulated; neither a violation nor a harness error
            UNSUPPORTED.store(true, std::sync::atomic::Ordering::Relaxed);
            return Verdict::Pass;
        }
        if code == 2 {
            eprintln!("HARNESS-ERROR in isolated run: {out}");
            std::process::exit(2);
        }
        Verdict::Crash(format!("exit {code}: {}", out.lines().find(|l| l.starts_with("FATAL-FAULT")).unwrap_or("")))
    }
}

fn same_failure(want: &Verdict, got: &Verdict) -> bool {
    match (want, got) {
        (Verdict::Viol(a), Verdict::Viol(b)) => a.oracle == b.oracle && a.properties == b.properties,
        (Verdict::Crash(_), Verdict::Crash(_)) => true,
        _ => false,
    }
}

fn crash_violation(msg: &str, step: usize) -> Violation {
    Violation {
        properties: vec!["C01".into(), "C02".into(), "C09".into(), "C10".into(), "C20".into()],
        oracle: "fatal-fault".into(),
        step,
        detail: format!("the system under test made an access the simulated machine cannot resolve ({msg})"),
    }
}

/// Delta debugging over the step list, then argument / configuration simplification.
fn minimise(mut rp: Replay, want: &Verdict) -> Replay {
    let orig = rp.steps.len();
    let mut tries = 0u32;
    let test = |cand: &Replay, tries: &mut u32| -> bool {
        *tries += 1;
        *tries < 4000 && same_failure(want, &run_isolated(cand))
    };
    // truncate after the failing step
    if let Verdict::Viol(v) = want {
        if v.step + 1 < rp.steps.len() {
            let mut c = rp.clone();
            c.steps.truncate(v.step + 1);
            if test(&c, &mut tries) {
                rp = c;
            }
        }
    }
    // ddmin
    let mut n = 2usize;
    while rp.steps.len() >= 2 {
        let len = rp.steps.len();
        let chunk = (len + n - 1) / n;
        let mut reduced = false;
        let mut start = 0;
        while start < len {
            let end = (start + chunk).min(len);
            let mut c = rp.clone();
            c.steps.drain(start..end);
            if !c.steps.is_empty() && test(&c, &mut tries) {
                rp = c;
                n = (n - 1).max(2);
                reduced = true;
                break;
            }
            start = end;
        }
        if !reduced {
            if chunk == 1 {
                break;
            }
            n = (n * 2).min(len);
        }
    }
    // configuration
    let cfg_edits: Vec<Box<dyn Fn(&mut Replay)>> = vec![
        Box::new(|r| r.config.enumerate_faults = false),
        Box::new(|r| r.config.enumerate_ranges = false),
        Box::new(|r| r.config.tlb = false),
        Box::new(|r| r.config.alloc.exhaust_after = None),
        Box::new(|r| r.config.alloc.policy = steps::Policy::Ascending),
        Box::new(|r| {
            r.config.pcide = false;
            r.config.cr3_low = 0
        }),
        Box::new(|r| r.config.view = steps::View::Mapped),
    ];
    for e in cfg_edits {
        let mut c = rp.clone();
        e(&mut c);
        if c != rp && test(&c, &mut tries) {
            rp = c;
        }
    }
    // arguments
    for i in 0..rp.steps.len() {
        let variants: Vec<Step> = match &rp.steps[i] {
            Step::Map { size, page, frame, flags, pflags, fail } => {
                let mut v = vec![];
                if *fail != 0 {
                    v.push(Step::Map { size: *size, page: *page, frame: *frame, flags: *flags, pflags: pflags.clone(), fail: 0 });
                }
                if *flags != 1 {
                    v.push(Step::Map { size: *size, page: *page, frame: *frame, flags: 1, pflags: pflags.clone(), fail: *fail });
                    v.push(Step::Map { size: *size, page: *page, frame: *frame, flags: *flags & 0xfff, pflags: pflags.clone(), fail: *fail });
                }
                if pflags.is_some() {
                    v.push(Step::Map { size: *size, page: *page, frame: *frame, flags: *flags, pflags: None, fail: *fail });
                    v.push(Step::Map { size: *size, page: *page, frame: *frame, flags: *flags, pflags: Some("0x1".into()), fail: *fail });
                }
                v
            }
            Step::IdentityMap { size, frame, flags, fail } => {
                let mut v = vec![];
                if *fail != 0 {
                    v.push(Step::IdentityMap { size: *size, frame: *frame, flags: *flags, fail: 0 });
                }
                if *flags != 1 {
                    v.push(Step::IdentityMap { size: *size, frame: *frame, flags: 1, fail: *fail });
                }
                v
            }
            Step::UpdateFlags { size, page, flags } if *flags != 1 => vec![Step::UpdateFlags { size: *size, page: *page, flags: 1 }, Step::UpdateFlags { size: *size, page: *page, flags: *flags & 0xfff }],
            Step::SetFlagsP { level, size, page, flags } if *flags != 3 => vec![Step::SetFlagsP { level: *level, size: *size, page: *page, flags: 3 }],
            Step::CleanUpRange { .. } => vec![Step::CleanUp],
            _ => vec![],
        };
        for v in variants {
            let mut c = rp.clone();
            c.steps[i] = v;
            if test(&c, &mut tries) {
                rp = c;
            }
        }
    }
    rp.minimised_from_steps = Some(orig);
    rp
}

fn write_replay(path: &str, rp: &Replay) {
    let s = serde_json::to_string_pretty(rp).unwrap();
    if let Some(dir) = std::path::Path::new(path).parent() {
        let _ = std::fs::create_dir_all(dir);
    }
    std::fs::write(path, s).unwrap_or_else(|e| {
        eprintln!("HARNESS-ERROR: cannot write {path}: {e}");
        std::process::exit(2);
    });
}

fn read_replay(path: &str) -> Replay {
    let s = std::fs::read_to_string(path).unwrap_or_else(|e| {
        eprintln!("HARNESS-ERROR: cannot read {path}: {e}");
        std::process::exit(2);
    });
    serde_json::from_str(&s).unwrap_or_else(|e| {
        eprintln!("HARNESS-ERROR: cannot parse {path}: {e}");
        std::process::exit(2);
    })
}

fn check_address_space() {
    // P4 slots 1..=160 (recursive view) and 176..=239 (offset window) must be free of host mappings
    let maps = std::fs::read_to_string("/proc/self/maps").unwrap_or_default();
    for line in maps.lines() {
        let range = line.split_whitespace().next().unwrap_or("");
        let mut it = range.split('-');
        let (a, b) = (it.next().unwrap_or("0"), it.next().unwrap_or("0"));
        let (a, b) = (u64::from_str_radix(a, 16).unwrap_or(0), u64::from_str_radix(b, 16).unwrap_or(0));
        if b == 0 || a >> 47 != 0 {
            continue;
        }
        let (sa, sb) = (a >> 39, (b - 1) >> 39);
        let hit = |lo: u64, hi: u64| sa <= hi && sb >= lo;
        if hit(1, 160) || hit(176, 239) {
            eprintln!("HARNESS-ERROR: host mapping {range} lies in a P4 slot reserved for the simulated views");
            std::process::exit(2);
        }
    }
}

fn stats_json(st: &Stats) -> serde_json::Value {
    let mut cells = st.cells.clone();
    let (sn, cn) = (["4K", "2M", "1G"], ["NoPath", "Free", "MappedExact", "InsideHuge", "HoldsTable"]);
    let codes = ["Ok", "PageAlreadyMapped", "ParentEntryHugePage", "FrameAllocationFailed", "PageNotMapped", "InvalidFrameAddress", "panic", "Mapped"];
    for a in 0..3 {
        for b in 0..5 {
            for c in 0..8 {
                if st.tp_cells[a][b][c] > 0 {
                    cells.insert(format!("translate_page(probe)/{}/{}/{}", sn[a], cn[b], codes[c]), st.tp_cells[a][b][c]);
                }
            }
        }
    }
    json!({
        "runs": st.runs, "steps": st.steps, "calls": st.calls, "probe_translations": st.probe_translations,
        "distinct": st.distinct.len(),
        "probes": st.probes, "cells": cells,
        "fault_kinds": {"alloc_fail_1st": st.fired[0], "alloc_fail_2nd": st.fired[1], "alloc_fail_3rd": st.fired[2], "alloc_fail_all": st.fired[3], "alloc_exhausted": st.fired[4]},
        "recycled_frames": st.recycled, "views_and_environment_variants": st.views, "filtered_misuse_steps": st.filtered,
        "mmu_faults_resolved": st.mmu_faults, "trapped_instructions": st.trapped, "deallocations": st.deallocs,
        "cleanup_model_agree": st.cleanup_model_agree, "cleanup_model_differ": st.cleanup_model_differ,
        "enumerated_failure_masks": st.enum_masks, "enumerated_ranges": st.enum_ranges,
        "tlb_fills": st.tlb_fills, "tlb_checks": st.tlb_checks,
        "runs_repeated_in_a_fresh_process": st.fresh_runs,
        "kernel_half_recursive_runs": st.kernel_half_runs, "kernel_half_runs_given_up(unsupported instruction)": st.kernel_half_unsupported,
    })
}

fn main() {
    let args: Vec<String> = std::env::args().collect();
    let cmd = args.get(1).map(|s| s.as_str()).unwrap_or("");
    check_address_space();
    match cmd {
        "emit" => {
            let seed: u64 = args[2].parse().unwrap();
            let prop = args.get(3).map(|s| s.as_str()).unwrap_or("C01");
            println!("{}", serde_json::to_string_pretty(&gen::gen_replay(seed, prop)).unwrap());
        }
        "replay" => {
            let rp = read_replay(&args[2]);
            let isolated = args.iter().any(|a| a == "--isolated") || kernel_half(&rp);
            let v = if isolated {
                run_isolated(&rp)
            } else {
                let mut st = Stats::default();
                match run_replay(&rp, &mut st) {
                    None => Verdict::Pass,
                    Some(v) => Verdict::Viol(v),
                }
            };
            match v {
                Verdict::Pass => {
                    println!("PASS");
                    std::process::exit(0)
                }
                Verdict::Viol(v) => {
                    println!("FAIL {}", serde_json::to_string(&v).unwrap());
                    std::process::exit(1)
                }
                Verdict::Crash(m) => {
                    println!("FAIL {}", serde_json::to_string(&crash_violation(&m, 0)).unwrap());
                    std::process::exit(1)
                }
            }
        }
        "minimise" => {
            let mut rp = read_replay(&args[2]);
            let out = &args[3];
            let want = run_isolated(&rp);
            if want == Verdict::Pass {
                eprintln!("HARNESS-ERROR: {} does not fail when replayed", args[2]);
                std::process::exit(2);
            }
            let from = rp.steps.len();
            rp = minimise(rp, &want);
            // final confirmation in a fresh child
            let got = run_isolated(&rp);
            if !same_failure(&want, &got) {
                eprintln!("HARNESS-ERROR: minimised replay does not reproduce ({got:?})");
                std::process::exit(2);
            }
            rp.violation = match got {
                Verdict::Viol(v) => Some(v),
                Verdict::Crash(m) => Some(crash_violation(&m, rp.steps.len().saturating_sub(1))),
                Verdict::Pass => None,
            };
            write_replay(out, &rp);
            println!("MINIMISED {} -> {} steps: {}", from, rp.steps.len(), out);
        }
        "explore" => {
            let prop = arg(&args, "--prop").unwrap_or("C01").to_string();
            let base: u64 = arg(&args, "--seed").and_then(|s| s.parse().ok()).unwrap_or(1);
            let start: u64 = arg(&args, "--start").and_then(|s| s.parse().ok()).unwrap_or(0);
            let count: u64 = arg(&args, "--count").and_then(|s| s.parse().ok()).unwrap_or(100);
            let stride: u64 = arg(&args, "--stride").and_then(|s| s.parse().ok()).unwrap_or(1);
            let deadline: f64 = arg(&args, "--deadline").and_then(|s| s.parse().ok()).unwrap_or(1e9);
            let out = arg(&args, "--out").unwrap_or("/dev/stdout").to_string();
            let rdir = arg(&args, "--replay-dir").unwrap_or("/verif/replays").to_string();
            let max_viol: usize = arg(&args, "--max-violations").and_then(|s| s.parse().ok()).unwrap_or(3);
            let log = arg(&args, "--event-log").map(|s| s.to_string());
            let cur_path = format!("{out}.cur");
            let t0 = std::time::Instant::now();
            let mut st = Stats::default();
            let mut viols: Vec<serde_json::Value> = vec![];
            let mut samples: Vec<serde_json::Value> = vec![];
            let mut logf = log.map(|p| std::fs::File::create(p).unwrap());
            let mut done = 0u64;
            let mut k = start;
            // one run in `fresh_every` is repeated in a process with pristine process-wide state
            // (usim::driver::Zygote)
            let fresh_every: u64 = arg(&args, "--fresh-every").and_then(|s| s.parse().ok()).unwrap_or(16);
            let zprop = prop.clone();
            let answer = move |seed: u64| -> String {
                match run_isolated(&gen::gen_replay(seed, &zprop)) {
                    Verdict::Pass => "PASS".to_string(),
                    Verdict::Viol(v) => format!("VIOL {}", serde_json::to_string(&v).unwrap()),
                    Verdict::Crash(m) => format!("CRASH {m}"),
                }
            };
            let mut zygote = if fresh_every > 0 { Some(usim::driver::Zygote::spawn_raw(&answer)) } else { None };
            while done < count {
                if t0.elapsed().as_secs_f64() > deadline {
                    break;
                }
                let seed = run_seed(base, k);
                let _ = std::fs::write(&cur_path, format!("{seed}"));
                let rp = gen::gen_replay(seed, &prop);
                if samples.len() < 3 && rp.steps.len() <= 12 {
                    samples.push(json!({"seed": seed, "config": rp.config, "steps": rp.steps}));
                }
                let before = (st.steps, st.calls, st.mmu_faults, st.trapped, st.deallocs);
                st.evhash = 0;
                let v = if kernel_half(&rp) {
                    // executed in a forked child: it may have to give up on an instruction
                    st.runs += 1;
                    st.kernel_half_runs += 1;
                    UNSUPPORTED.store(false, std::sync::atomic::Ordering::Relaxed);
                    let r = match run_isolated(&rp) {
                        Verdict::Pass => None,
                        Verdict::Viol(v) => Some(v),
                        Verdict::Crash(m) => Some(crash_violation(&m, 0)),
                    };
                    if UNSUPPORTED.load(std::sync::atomic::Ordering::Relaxed) {
                        st.kernel_half_unsupported += 1;
                    }
                    r
                } else {
                    run_replay(&rp, &mut st)
                };
                if let Some(f) = logf.as_mut() {
                    // deterministic event summary of the run (for the determinism diff)
                    let _ = writeln!(
                        f,
                        "{seed} steps={} calls={} mmu={} traps={} deallocs={} distinct={} evhash={:016x} viol={}",
                        st.steps - before.0,
                        st.calls - before.1,
                        st.mmu_faults - before.2,
                        st.trapped - before.3,
                        st.deallocs - before.4,
                        st.distinct.len(),
                        st.evhash,
                        v.as_ref().map(|v| format!("{}@{}:{}", v.oracle, v.step, v.detail)).unwrap_or_default()
                    );
                }
                let v = match (v, zygote.as_mut()) {
                    (None, Some(z)) if usim::prng::mix2(seed, 0xf5e5) % fresh_every == 0 => {
                        st.fresh_runs += 1;
                        let line = z.ask(seed);
                        if line == "PASS" {
                            None
                        } else if let Some(j) = line.strip_prefix("VIOL ") {
                            Some(serde_json::from_str::<Violation>(j).expect("violation json"))
                        } else if let Some(m) = line.strip_prefix("CRASH ") {
                            Some(crash_violation(m, 0))
                        } else {
                            eprintln!("HARNESS-ERROR: fresh-process runner answered {line:?}");
                            std::process::exit(2);
                        }
                    }
                    (v, _) => v,
                };
                if let Some(v) = v {
                    let mut rp = rp;
                    rp.violation = Some(v.clone());
                    let path = format!("{rdir}/physim-{seed}.json");
                    write_replay(&path, &rp);
                    viols.push(json!({"seed": seed, "replay": path, "violation": v}));
                    if viols.len() >= max_viol {
                        done += 1;
                        break;
                    }
                }
                done += 1;
                k += stride;
            }
            drop(zygote);
            let _ = std::fs::remove_file(&cur_path);
            let res = json!({
                "property": prop, "base_seed": base, "start": start, "stride": stride, "runs_done": done,
                "wall_s": t0.elapsed().as_secs_f64(), "stats": stats_json(&st), "violations": viols, "samples": samples,
                "distinct_keys": st.distinct.iter().cloned().collect::<Vec<u64>>(),
            });
            std::fs::write(&out, serde_json::to_string(&res).unwrap()).unwrap();
            std::process::exit(if viols.is_empty() { 0 } else { 1 });
        }
        _ => {
            eprintln!("usage: physim explore|replay|minimise|emit ...");
            std::process::exit(2);
        }
    }
}
