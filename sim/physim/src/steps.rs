//! Run description: configuration + explicit step list.  This is also the replay-file format.

use serde::{Deserialize, Serialize};

pub mod hx {
    use serde::{Deserialize, Deserializer, Serializer};
    pub fn serialize<S: Serializer>(v: &u64, s: S) -> Result<S::Ok, S::Error> {
        s.serialize_str(&format!("{:#x}", v))
    }
    pub fn deserialize<'de, D: Deserializer<'de>>(d: D) -> Result<u64, D::Error> {
        let s = String::deserialize(d)?;
        let t = s.trim_start_matches("0x");
        u64::from_str_radix(t, 16).map_err(serde::de::Error::custom)
    }
}

#[derive(Clone, Copy, Debug, PartialEq, Eq, PartialOrd, Ord, Serialize, Deserialize)]
pub enum Size {
    #[serde(rename = "4K")]
    K4,
    #[serde(rename = "2M")]
    M2,
    #[serde(rename = "1G")]
    G1,
}

impl Size {
    pub fn bytes(self) -> u64 {
        match self {
            Size::K4 => 1 << 12,
            Size::M2 => 1 << 21,
            Size::G1 => 1 << 30,
        }
    }
    /// number of indices in the path of a leaf of this size
    pub fn path_len(self) -> u8 {
        match self {
            Size::K4 => 4,
            Size::M2 => 3,
            Size::G1 => 2,
        }
    }
    pub fn name(self) -> &'static str {
        match self {
            Size::K4 => "4K",
            Size::M2 => "2M",
            Size::G1 => "1G",
        }
    }
    pub const ALL: [Size; 3] = [Size::K4, Size::M2, Size::G1];
}

#[derive(Clone, Debug, PartialEq, Eq, Serialize, Deserialize)]
#[serde(tag = "kind", rename_all = "snake_case")]
pub enum View {
    Offset {
        #[serde(with = "hx")]
        phys_offset: u64,
    },
    Mapped,
    Recursive {
        r: u16,
    },
}

impl View {
    pub fn name(&self) -> &'static str {
        match self {
            View::Offset { .. } => "offset",
            View::Mapped => "mapped",
            View::Recursive { .. } => "recursive",
        }
    }
}

#[derive(Clone, Copy, Debug, PartialEq, Eq, Serialize, Deserialize)]
#[serde(rename_all = "snake_case")]
pub enum Policy {
    Ascending,
    Random,
    Lifo,
    Fifo,
    HugeAligned,
    High,
}

#[derive(Clone, Debug, PartialEq, Eq, Serialize, Deserialize)]
pub struct AllocCfg {
    pub policy: Policy,
    #[serde(with = "hx")]
    pub seed: u64,
    /// run-level exhaustion: every request after this many successful ones fails
    pub exhaust_after: Option<u32>,
    /// hand out physical frame 0 first (when it lies in a table zone)
    #[serde(default)]
    pub frame0_first: bool,
}

#[derive(Clone, Debug, PartialEq, Eq, Serialize, Deserialize)]
pub struct Config {
    pub view: View,
    pub alloc: AllocCfg,
    #[serde(with = "hx")]
    pub garbage_seed: u64,
    #[serde(with = "hx")]
    pub p4_frame: u64,
    /// seed of the table-zone predicate (which 1 GiB zones of physical memory hold page tables)
    #[serde(with = "hx")]
    pub zone_seed: u64,
    /// CR3 low bits (PCID or flags) and CR4.PCIDE of the simulated CPU
    pub cr3_low: u16,
    pub pcide: bool,
    /// enumerate every allocator-failure point of every map call (snapshot / rollback)
    pub enumerate_faults: bool,
    /// enumerate clean-up ranges from a snapshot at every clean-up step
    pub enumerate_ranges: bool,
    /// keep a simulated TLB coherent through the returned flush tokens
    pub tlb: bool,
    /// data memory (everything outside the table zones) reads as zero instead of garbage
    #[serde(default)]
    pub zero_data: bool,
    /// one mapper object for the whole run instead of a fresh one per call
    #[serde(default)]
    pub persist: bool,
    /// recursive view: build the mapper with `new_unchecked(alias, R)` where `alias` is another
    /// mapping of the level-4 table (not its recursive address)
    #[serde(default)]
    pub rec_alias: bool,
    /// stale memory holds no word with bit 0 set (see PhysMem::even_garbage)
    #[serde(default)]
    pub even_garbage: bool,
    /// about a quarter of the words of stale memory are zero (see PhysMem::sparse_garbage)
    #[serde(default)]
    pub sparse_garbage: bool,
}

#[derive(Clone, Debug, PartialEq, Eq, Serialize, Deserialize)]
#[serde(tag = "op", rename_all = "snake_case")]
pub enum Step {
    /// map_to (pflags = None) or map_to_with_table_flags
    Map {
        size: Size,
        #[serde(with = "hx")]
        page: u64,
        #[serde(with = "hx")]
        frame: u64,
        #[serde(with = "hx")]
        flags: u64,
        pflags: Option<String>,
        /// bit k-1 set: the k-th allocation request of this call fails (k = 1..3); bit 7: all fail
        fail: u8,
    },
    IdentityMap {
        size: Size,
        #[serde(with = "hx")]
        frame: u64,
        #[serde(with = "hx")]
        flags: u64,
        fail: u8,
    },
    Unmap {
        size: Size,
        #[serde(with = "hx")]
        page: u64,
    },
    UpdateFlags {
        size: Size,
        #[serde(with = "hx")]
        page: u64,
        #[serde(with = "hx")]
        flags: u64,
    },
    SetFlagsP {
        level: u8,
        size: Size,
        #[serde(with = "hx")]
        page: u64,
        #[serde(with = "hx")]
        flags: u64,
    },
    TranslatePage {
        size: Size,
        #[serde(with = "hx")]
        page: u64,
    },
    Translate {
        #[serde(with = "hx")]
        addr: u64,
    },
    CleanUp,
    CleanUpRange {
        #[serde(with = "hx")]
        start: u64,
        #[serde(with = "hx")]
        end: u64,
    },
    /// someone else (firmware, another kernel component) stores a huge-page entry whose address is
    /// not size-aligned into a free slot: the state the `InvalidFrameAddress` errors exist for
    Poke {
        size: Size,
        #[serde(with = "hx")]
        page: u64,
        #[serde(with = "hx")]
        raw: u64,
    },
    /// the simulated CPU touches an address (TLB fill)
    Touch {
        #[serde(with = "hx")]
        addr: u64,
    },
}

impl Step {
    pub fn opname(&self) -> &'static str {
        match self {
            Step::Map { pflags: None, .. } => "map_to",
            Step::Map { .. } => "map_to_with_table_flags",
            Step::IdentityMap { .. } => "identity_map",
            Step::Unmap { .. } => "unmap",
            Step::UpdateFlags { .. } => "update_flags",
            Step::SetFlagsP { level: 4, .. } => "set_flags_p4_entry",
            Step::SetFlagsP { level: 3, .. } => "set_flags_p3_entry",
            Step::SetFlagsP { .. } => "set_flags_p2_entry",
            Step::TranslatePage { .. } => "translate_page",
            Step::Translate { .. } => "translate",
            Step::CleanUp => "clean_up",
            Step::CleanUpRange { .. } => "clean_up_addr_range",
            Step::Touch { .. } => "touch",
            Step::Poke { .. } => "poke",
        }
    }
    pub fn size(&self) -> Option<Size> {
        match self {
            Step::Map { size, .. }
            | Step::IdentityMap { size, .. }
            | Step::Unmap { size, .. }
            | Step::UpdateFlags { size, .. }
            | Step::SetFlagsP { size, .. }
            | Step::Poke { size, .. }
            | Step::TranslatePage { size, .. } => Some(*size),
            _ => None,
        }
    }
    /// the page (start address) the step is about, if any
    pub fn page(&self) -> Option<u64> {
        match self {
            Step::Map { page, .. }
            | Step::Unmap { page, .. }
            | Step::UpdateFlags { page, .. }
            | Step::SetFlagsP { page, .. }
            | Step::Poke { page, .. }
            | Step::TranslatePage { page, .. } => Some(*page),
            Step::IdentityMap { frame, .. } => Some(*frame),
            Step::Translate { addr } | Step::Touch { addr } => Some(*addr),
            _ => None,
        }
    }
    pub fn is_mutating(&self) -> bool {
        !matches!(self, Step::TranslatePage { .. } | Step::Translate { .. } | Step::Touch { .. })
    }
}

pub fn pflags_of(p: &Option<String>) -> Option<u64> {
    p.as_ref().map(|s| u64::from_str_radix(s.trim_start_matches("0x"), 16).unwrap_or(1))
}

#[derive(Clone, Debug, PartialEq, Eq, Serialize, Deserialize)]
pub struct Violation {
    /// every property whose statement the observed behaviour contradicts
    pub properties: Vec<String>,
    /// oracle name: stable identifier of what was violated (the minimiser preserves it)
    pub oracle: String,
    pub step: usize,
    pub detail: String,
}

#[derive(Clone, Debug, PartialEq, Eq, Serialize, Deserialize)]
pub struct Replay {
    pub property: String,
    pub simulator: String,
    pub seed: u64,
    pub config: Config,
    pub steps: Vec<Step>,
    pub violation: Option<Violation>,
    pub minimised_from_steps: Option<usize>,
}
